"""to_serde_struct / inner_to_serde_struct of src/element.rs (the field rendering: the part of the
renderer that is neither the identifier map, nor the name hints, nor the struct-name table)
-> Gallina FUNCTIONS over the model's own types (coq/Generated/RenderRs.v), used by
bin/translate --only render.

Unlike the other translators this one produces a shallow embedding: every Rust statement becomes a
`let` that rebinds the variable it mutates (`x.push_str(&e)` -> `let x := x ++ e in`), an `if` /
`match` / `for` statement returns the tuple of the variables its body mutates (`for` is a fold), the
recursive call - the function recurses through a sorted clone of the children, which is not
structural - is on fuel and in the option monad (`None` = out of fuel, excluded by the theorem), and
the `&mut` argument `trace` is returned next to the result.  The meaning given to the primitives is
fixed in coq/Model/RustRender.v and by the table METHODS below; `.to_string()`, `.clone()`,
`.cloned()`, `.iter()` and `&` are the identity (T = String, values instead of references).
Anything that is not matched is refused (Refuse -> bin/translate exits 3)."""
import re
from translate_ident import Refuse, tokenize, find_fn

KEYWORDS = {"let", "mut", "for", "in", "if", "while", "return", "match", "else", "loop", "fn", "as", "ref", "move"}
IDENT = re.compile(r"[A-Za-z_][A-Za-z0-9_]*$")

# method / field -> Gallina (receiver first).  None = identity
FIELDS = {"name": "ename", "position": "epos", "attributes": "eattrs", "children": "echildren",
          "derive": "derive", "attribute_prefix": "attribute_prefix", "text_identifier": "text_identifier",
          "sort": "sort"}
METHODS0 = {"to_string": None, "clone": None, "cloned": None, "iter": None,
            "inner_t": "snd", "is_empty": "is_nil", "standalone": "estandalone",
            "contains_only_text": "contains_only_text", "remove_namespace": "remove_namespace",
            "unwrap_or_default": "unwrap_or_default_str", "compute_name_hints": "compute_name_hints"}
METHODS1 = {"get": "table_get", "compute_struct_names": "compute_struct_names"}
TYPES = {"TextContent": "TText", "Attribute": "TAttr", "ChildElement": "TChild"}
REC = "inner_to_serde_struct"


def v(x):
    return "v_" + x


class Parser:
    def __init__(self, toks):
        self.t, self.i = toks, 0

    def peek(self, k=0):
        return self.t[self.i + k] if self.i + k < len(self.t) else None

    def ctx(self):
        return " ".join(self.t[max(0, self.i - 8):self.i + 5])

    def take(self, *expected):
        for e in expected:
            if self.peek() != e:
                raise Refuse("expected `%s`, found `%s` (... %s)" % (e, self.peek(), self.ctx()))
            self.i += 1

    def opt(self, e):
        if self.peek() == e:
            self.i += 1
            return True
        return False

    def ident(self):
        x = self.peek()
        if x is None or not IDENT.match(x) or x in KEYWORDS:
            raise Refuse("expected an identifier, found `%s` (... %s)" % (x, self.ctx()))
        self.i += 1
        return x

    # ---------------- expressions -> AST
    def expr(self):
        a = self.unary()
        if self.peek() in ("!=", "=="):
            op = self.peek()
            self.i += 1
            b = self.unary()
            return ("ne" if op == "!=" else "eq", a, b)
        return a

    def unary(self):
        if self.opt("!"):
            return ("not", self.unary())
        if self.opt("&"):
            self.opt("mut")
            return self.unary()
        return self.postfix()

    def args(self):
        self.take("(")
        out = []
        while self.peek() != ")":
            out.append(self.expr())
            if not self.opt(","):
                break
        self.take(")")
        return out

    def postfix(self):
        e = self.primary()
        while self.peek() == ".":
            self.take(".")
            m = self.ident()
            if self.peek() == "(":
                e = ("call", m, e, self.args())
            else:
                e = ("field", m, e)
        return e

    def primary(self):
        t = self.peek()
        if t is None:
            raise Refuse("unexpected end of the function body")
        if t.startswith('"'):
            self.i += 1
            return ("str", t)
        if t == "(":
            self.take("(")
            e = self.expr()
            self.take(")")
            return e
        if t == "vec":
            self.take("vec", "!", "[", "]")
            return ("nil",)
        if t == "format":
            self.take("format", "!", "(")
            lit = self.peek()
            if not lit.startswith('"'):
                raise Refuse("format! without a literal format string")
            self.i += 1
            a = []
            while self.opt(","):
                if self.peek() == ")":
                    break
                a.append(self.expr())
            self.take(")")
            return ("format", lit, a)
        if t == "match":
            self.take("match")
            sc = self.expr()
            self.take("{")
            arms = []
            while self.peek() != "}":
                pat = self.pattern()
                self.take("=>")
                arms.append((pat, self.expr()))
                if not self.opt(","):
                    break
            self.take("}")
            return ("match", sc, arms)
        if t == "if":
            self.take("if")
            c = self.expr()
            self.take("{")
            a = self.expr()
            self.take("}", "else", "{")
            b = self.expr()
            self.take("}")
            return ("ife", c, a, b)
        x = self.ident()
        if self.peek() == "::":
            self.take("::")
            y = self.ident()
            if x == "Type":
                if y not in TYPES:
                    raise Refuse("unknown Type::%s" % y)
                return ("raw", TYPES[y])
            if (x, y) in (("String", "new"), ("Vec", "new")):
                self.take("(", ")")
                return ("nil",)
            if (x, y) == ("Map", "new"):
                a = self.args()
                if len(a) != 1:
                    raise Refuse("Map::new takes one argument")
                return ("app", "id_new", a)
            raise Refuse("`%s::%s` is outside the fragment" % (x, y))
        if self.peek() == "(":
            if x != "starts_with_xmlns":
                raise Refuse("call of `%s` is outside the fragment" % x)
            return ("app", "starts_with_xmlns", self.args())
        return ("var", x)

    def pattern(self):
        t = self.peek()
        if t in ("true", "false"):
            self.i += 1
            return ("bool", t)
        x = self.ident()
        if self.peek() == "::":
            self.take("::")
            y = self.ident()
            if x == "Necessity" and y in ("Mandatory", "Optional"):
                self.take("(", "_", ")")
                return ("nec", "Mand" if y == "Mandatory" else "Opt")
            if x == "SortBy" and y in ("XmlName", "Unsorted"):
                return ("sortby", y)
            raise Refuse("pattern `%s::%s` is outside the fragment" % (x, y))
        if x == "Some":
            self.take("(")
            b = self.ident()
            self.take(")")
            return ("some", b)
        if x == "None":
            return ("none",)
        raise Refuse("pattern `%s` is outside the fragment" % x)

    # ---------------- statements -> AST
    def block(self):
        """{ stmt* [tail-expr] } -> (stmts, tail or None)"""
        self.take("{")
        out, tail = [], None
        while self.peek() != "}":
            st = self.stmt()
            if st[0] == "tail":
                tail = st[1]
                if self.peek() != "}":
                    raise Refuse("an expression without `;` that is not last in its block (... %s)" % self.ctx())
                break
            out.append(st)
        self.take("}")
        return out, tail

    def stmt(self):
        t = self.peek()
        if t == "let":
            self.take("let")
            self.opt("mut")
            x = self.ident()
            self.take("=")
            e = self.expr()
            self.take(";")
            return ("let", x, e)
        if t == "if":
            self.take("if")
            if self.opt("let"):
                pat = self.pattern()
                self.take("=")
                sc = self.expr()
                body = self.block()
                if body[1] is not None:
                    raise Refuse("`if let` block with a value")
                return ("iflet", pat, sc, body[0])
            c = self.expr()
            a = self.block()
            b = ([], None)
            if self.opt("else"):
                b = self.block()
            if a[1] is not None or b[1] is not None:
                raise Refuse("`if` statement whose blocks have a value")
            return ("if", c, a[0], b[0])
        if t == "match":
            self.take("match")
            sc = self.expr()
            self.take("{")
            arms = []
            while self.peek() != "}":
                pat = self.pattern()
                self.take("=>")
                if self.peek() == "{":
                    body = self.block()
                    if body[1] is not None:
                        raise Refuse("`match` statement whose arms have a value")
                    arms.append((pat, body[0]))
                    self.opt(",")
                else:
                    st = self.simple(",")
                    arms.append((pat, [st]))
            self.take("}")
            return ("matchs", sc, arms)
        if t == "for":
            self.take("for")
            x = self.ident()
            self.take("in")
            xs = self.expr()
            body = self.block()
            if body[1] is not None:
                raise Refuse("`for` block with a value")
            return ("for", x, xs, body[0])
        return self.simple(";")

    def simple(self, end):
        """x.push_str(e); x.push(e); x.pop(); x.sort_unstable_by_key(|a| k);  or a tail expression"""
        save = self.i
        if IDENT.match(self.peek() or "") and self.peek() not in KEYWORDS and self.peek(1) == "." and self.peek(3) == "(":
            x, m = self.peek(), self.peek(2)
            if m in ("push_str", "push"):
                self.i += 3
                a = self.args()
                if len(a) != 1:
                    raise Refuse("`%s` takes one argument" % m)
                if self.peek() == end:
                    self.take(end)
                    return (m, x, a[0])
            elif m == "pop":
                self.i += 3
                self.take("(", ")")
                if self.peek() == end:
                    self.take(end)
                    return ("pop", x)
            elif m == "sort_unstable_by_key":
                self.i += 3
                self.take("(", "|")
                a = self.ident()
                self.take("|")
                k = self.expr()
                self.take(")")
                if self.peek() == end or (end == "," and self.peek() == "}"):
                    self.opt(end)
                    return ("sort", x, a, k)
            self.i = save
        e = self.expr()
        if self.peek() == "}":
            return ("tail", e)
        raise Refuse("statement outside the fragment (... %s)" % self.ctx())


# ---------------------------------------------------------------- emission
def fmt_parts(lit):
    body = lit[1:-1]
    parts, cur, i = [], "", 0

    def flush():
        nonlocal cur
        if cur:
            parts.append(("lit", cur))
            cur = ""
    while i < len(body):
        c = body[i]
        if c == "\\":
            n = body[i + 1] if i + 1 < len(body) else ""
            if n == "n":
                flush(); parts.append(("raw", "nl"))
            elif n == '"':
                flush(); parts.append(("raw", "quote"))
            else:
                raise Refuse("escape `\\%s` in a string literal is outside the fragment" % n)
            i += 2
        elif c == "{":
            if body[i + 1:i + 2] == "{":
                cur += "{"; i += 2
            elif body[i + 1:i + 2] == "}":
                flush(); parts.append(("hole",)); i += 2
            else:
                raise Refuse("format specification in %s is outside the fragment" % lit)
        elif c == "}":
            if body[i + 1:i + 2] == "}":
                cur += "}"; i += 2
            else:
                raise Refuse("unbalanced `}` in %s" % lit)
        else:
            if ord(c) < 32 or ord(c) > 126:
                raise Refuse("non-ASCII or control character in a string literal: %s" % lit)
            cur += c; i += 1
    flush()
    return parts


def plain_str(lit):
    out = []
    for p in fmt_parts(lit.replace("{", "{{").replace("}", "}}")):
        out.append('s "%s"' % p[1] if p[0] == "lit" else p[1])
    if not out:
        return "[]"
    return "(" + " ++ ".join(out) + ")"


class Emit:
    def __init__(self, fname):
        self.fname = fname
        self.k = 0

    def has_rec(self, node):
        if isinstance(node, tuple):
            if node and node[0] == "call" and node[1] == REC:
                return True
            return any(self.has_rec(x) for x in node)
        if isinstance(node, list):
            return any(self.has_rec(x) for x in node)
        return False

    def e(self, a):
        """pure expression -> Gallina"""
        k = a[0]
        if k == "var":
            return v(a[1])
        if k == "raw":
            return a[1]
        if k == "nil":
            return "[]"
        if k == "str":
            return plain_str(a[1])
        if k == "not":
            return "(negb %s)" % self.e(a[1])
        if k == "ne":
            return "(negb (str_eqb %s %s))" % (self.e(a[1]), self.e(a[2]))
        if k == "eq":
            return "(str_eqb %s %s)" % (self.e(a[1]), self.e(a[2]))
        if k == "app":
            return "(%s %s)" % (a[1], " ".join(self.e(x) for x in a[2]))
        if k == "field":
            if a[1] == "text":
                raise Refuse("`.text` is only read through `.text.is_some()`")
            if a[1] not in FIELDS:
                raise Refuse("field `.%s` is outside the fragment" % a[1])
            return "(%s %s)" % (FIELDS[a[1]], self.e(a[2]))
        if k == "call":
            m, recv, args = a[1], a[2], a[3]
            if m == "is_some" and recv[0] == "field" and recv[1] == "text" and not args:
                return "(etext %s)" % self.e(recv[2])
            if m == REC:
                raise Refuse("the recursive call is only translated as the whole argument of push_str or as the result")
            if m == "get_name" and len(args) == 2:
                return "(id_get %s %s %s)" % (self.e(recv), self.e(args[0]), self.e(args[1]))
            if m in METHODS0 and not args:
                f = METHODS0[m]
                return self.e(recv) if f is None else "(%s %s)" % (f, self.e(recv))
            if m in METHODS1 and len(args) == 1:
                return "(%s %s %s)" % (METHODS1[m], self.e(recv), self.e(args[0]))
            raise Refuse("method `.%s` with %d argument(s) is outside the fragment" % (m, len(args)))
        if k == "format":
            parts = fmt_parts(a[1])
            holes = [p for p in parts if p[0] == "hole"]
            if len(holes) != len(a[2]):
                raise Refuse("format!: %d holes, %d arguments" % (len(holes), len(a[2])))
            args = list(a[2])
            out = []
            for p in parts:
                if p[0] == "lit":
                    out.append('s "%s"' % p[1])
                elif p[0] == "raw":
                    out.append(p[1])
                else:
                    out.append(self.e(args.pop(0)))
            if not out:
                return "[]"
            return "(" + " ++ ".join(out) + ")"
        if k == "ife":
            return "(if %s then %s else %s)" % (self.e(a[1]), self.e(a[2]), self.e(a[3]))
        if k == "match":
            return self.match(a[1], [(p, self.e(b)) for p, b in a[2]])
        raise Refuse("expression outside the fragment: %r" % (a,))

    def match(self, sc, arms):
        kinds = {p[0] for p, _ in arms}
        if kinds == {"bool"}:
            d = {p[1]: b for p, b in arms}
            if set(d) != {"true", "false"} or len(arms) != 2:
                raise Refuse("match on a bool needs exactly the arms true and false")
            return "(if %s then %s else %s)" % (self.e(sc), d["true"], d["false"])
        if kinds == {"nec"}:
            d = {p[1]: b for p, b in arms}
            if set(d) != {"Mand", "Opt"} or len(arms) != 2:
                raise Refuse("match on a Necessity needs exactly the arms Mandatory(_) and Optional(_)")
            return "(match fst %s with Mand => %s | Opt => %s end)" % (self.e(sc), d["Mand"], d["Opt"])
        if kinds == {"sortby"}:
            d = {p[1]: b for p, b in arms}
            if set(d) != {"XmlName", "Unsorted"} or len(arms) != 2:
                raise Refuse("match on a SortBy needs exactly the arms XmlName and Unsorted")
            return "(match %s with XmlName => %s | Unsorted => %s end)" % (self.e(sc), d["XmlName"], d["Unsorted"])
        if kinds <= {"some", "none"} and len(arms) == 2 and kinds == {"some", "none"}:
            so = [(p, b) for p, b in arms if p[0] == "some"][0]
            no = [(p, b) for p, b in arms if p[0] == "none"][0]
            return "(match %s with Some %s => %s | None => %s end)" % (self.e(sc), v(so[0][1]), so[1], no[1])
        raise Refuse("match with these patterns is outside the fragment")

    # ---- statements
    def assigned(self, stmts):
        """variables of the enclosing scope that the statements mutate, in order of first mutation"""
        out, local = [], set()

        def add(x):
            if x not in local and x not in out:
                out.append(x)
        for st in stmts:
            k = st[0]
            if k == "let":
                if self.has_rec(st[2]):
                    raise Refuse("recursive call in a `let`")
                local.add(st[1])
            elif k in ("push_str", "push", "pop", "sort"):
                add(st[1])
                if k in ("push_str",) and self.has_rec(st[2]):
                    for x in self.rec_mut(st[2]):
                        add(x)
            elif k == "if":
                for x in self.assigned(st[2]) + self.assigned(st[3]):
                    add(x)
            elif k == "iflet":
                for x in self.assigned(st[3]):
                    add(x)
            elif k == "matchs":
                for _, b in st[2]:
                    for x in self.assigned(b):
                        add(x)
            elif k == "for":
                if st[1] in out:
                    raise Refuse("loop variable shadows a mutated variable")
                for x in self.assigned(st[3]):
                    if x != st[1]:
                        add(x)
            else:
                raise Refuse("statement kind %s" % k)
        return out

    def rec_mut(self, call):
        """the variable passed as the `&mut trace` argument of the recursive call"""
        if call[0] != "call" or call[1] != REC or len(call[3]) != 3:
            raise Refuse("the recursive call must be `X.%s(options, trace, struct_names)`" % REC)
        t = call[3][1]
        if t[0] != "var":
            raise Refuse("the second argument of the recursive call must be a variable")
        return [t[1]]

    def tup(self, vs):
        if not vs:
            raise Refuse("a block that mutates nothing")
        return v(vs[0]) if len(vs) == 1 else "(" + ", ".join(v(x) for x in vs) + ")"

    def bind(self, vs, rhs, rest, monadic):
        """bind the tuple of variables `vs` to rhs (a value, or an option when monadic), continue with rest"""
        if monadic:
            return "match %s with\n| None => None\n| Some %s =>\n%s\nend" % (rhs, self.tup(vs), rest)
        if len(vs) == 1:
            return "let %s := %s in\n%s" % (v(vs[0]), rhs, rest)
        return "let '%s := %s in\n%s" % (self.tup(vs), rhs, rest)

    def ret(self, vs, monadic):
        return ("Some %s" % self.tup(vs)) if monadic else self.tup(vs)

    def stmts(self, sts, final):
        """statement list -> nested lets ending in `final`"""
        if not sts:
            return final
        st, rest_s = sts[0], sts[1:]
        rest = self.stmts(rest_s, final)
        k = st[0]
        if k == "let":
            return "let %s := %s in\n%s" % (v(st[1]), self.e(st[2]), rest)
        if k == "push_str":
            if self.has_rec(st[2]):
                call = st[2]
                tr = self.rec_mut(call)[0]
                self.k += 1
                r = "r_%d" % self.k
                return ("match %s %s %s %s %s with\n| None => None\n| Some (%s, %s) =>\nlet %s := %s ++ %s in\n%s\nend"
                        % (self.fname, self.e(call[2]), self.e(call[3][0]), v(tr), self.e(call[3][2]), r, v(tr), v(st[1]), v(st[1]), r, rest))
            return "let %s := %s ++ %s in\n%s" % (v(st[1]), v(st[1]), self.e(st[2]), rest)
        if k == "push":
            return "let %s := %s ++ [%s] in\n%s" % (v(st[1]), v(st[1]), self.e(st[2]), rest)
        if k == "pop":
            return "let %s := removelast %s in\n%s" % (v(st[1]), v(st[1]), rest)
        if k == "sort":
            return "let %s := %s in\n%s" % (v(st[1]), self.sort(st), rest)
        mon = self.has_rec(st)
        vs = self.assigned([st])
        if k == "if":
            rhs = "(if %s then\n%s\nelse\n%s)" % (self.e(st[1]), self.stmts(st[2], self.ret(vs, mon)), self.stmts(st[3], self.ret(vs, mon)))
            return self.bind(vs, rhs, rest, mon)
        if k == "iflet":
            pat = st[1]
            if pat[0] != "sortby":
                raise Refuse("`if let` is only translated for a SortBy pattern")
            other = "Unsorted" if pat[1] == "XmlName" else "XmlName"
            rhs = "(match %s with\n| %s =>\n%s\n| %s => %s\nend)" % (self.e(st[2]), pat[1], self.stmts(st[3], self.ret(vs, mon)), other, self.ret(vs, mon))
            return self.bind(vs, rhs, rest, mon)
        if k == "matchs":
            arms = [(p, "\n" + self.stmts(b, self.ret(vs, mon)) + "\n") for p, b in st[2]]
            return self.bind(vs, self.match(st[1], arms), rest, mon)
        if k == "for":
            body = self.stmts(st[3], self.ret(vs, mon))
            if len(vs) == 1:
                fn = "(fun %s %s =>\n%s)" % (v(vs[0]), v(st[1]), body)
            else:
                fn = "(fun acc %s => let '%s := acc in\n%s)" % (v(st[1]), self.tup(vs), body)
            rhs = "%s %s %s %s" % ("fold_opt" if mon else "fold_left", fn, self.e(st[2]), self.tup(vs))
            return self.bind(vs, rhs, rest, mon)
        raise Refuse("statement kind %s" % k)

    def sort(self, st):
        _, x, a, key = st
        # the key decides which order: `.position` (Option<usize>) or the printed name (String)
        if key[0] == "field" and key[1] == "position":
            return "sort_by_key_pos (fun %s => %s) %s" % (v(a), self.e(key), v(x))
        if key[0] == "call" and key[1] == "to_string" and not key[3]:
            return "sort_by_key_str (fun %s => %s) %s" % (v(a), self.e(key), v(x))
        raise Refuse("sort key must be `.position` or end in `.to_string()` (the printed name)")


def header(toks, i, j, name):
    """parameter names of fn NAME (tokens i..j), `self` included"""
    p = Parser(toks[i:j])
    p.take("fn", name, "(")
    params = []
    while p.peek() != ")":
        p.opt("&")
        p.opt("mut")
        if p.opt("self"):
            params.append("self")
        else:
            x = p.ident()
            p.take(":")
            depth = 0
            while not (depth == 0 and p.peek() in (",", ")")):
                if p.peek() in ("<", "("):
                    depth += 1
                elif p.peek() in (">", ")"):
                    depth -= 1
                p.i += 1
            params.append(x)
        p.opt(",")
    p.take(")", "->", "String")
    if p.peek() is not None:
        raise Refuse("unexpected tokens after the return type of `%s`" % name)
    return params


def indent(text, n=2):
    return "\n".join(" " * n + l for l in text.split("\n"))


ELEMENT_TRANSLATED = ["new", "set_multiple", "increment", "merge_attr", "add_unique_child", "set_child_optional", "get_child",
                      "get_child_mut", "remove_child", "contains_only_text", "compute_name_hints", "expand_name",
                      "compute_struct_names", "to_serde_struct", "inner_to_serde_struct", "starts_with_xmlns", "add_unique"]
# everything of src/element.rs (tests cut off) outside the bodies of the translated functions: the
# imports, the struct, the four accessors, equality by name - pinned token by token
ELEMENT_REST = ('use std :: collections :: { HashMap , HashSet , VecDeque } ; use crate :: { necessity :: { merge_necessity , Necessity } , '
                'options :: SortBy , Options , } ; use convert_string :: ConvertString ; use identifier :: { Map , Type } ; # [ cfg ( test ) ] '
                'pub mod macro_rule ; mod identifier ; # [ derive ( Clone , Debug ) ] pub struct Element < T > { pub name : T , pub text : Option < T > , '
                'standalone : bool , count : u32 , attributes : Vec < Necessity < T > > , children : Vec < Necessity < Element < T > > > , '
                'position : Option < usize > , } impl < T : std :: cmp :: PartialEq + std :: fmt :: Display + std :: fmt :: Debug > Element < T > { '
                'pub <fn> pub fn formatted_name ( & self ) -> String { format ! ( "{}" , self . name ) . to_pascal_case ( ) } '
                'pub fn standalone ( & self ) -> bool { self . standalone } pub <fn> pub fn count ( & self ) -> u32 { self . count } '
                'pub <fn> pub <fn> pub <fn> pub <fn> pub <fn> pub <fn> pub <fn> '
                'pub fn children ( & self ) -> & Vec < Necessity < Element < T > > > { & self . children } <fn> <fn> <fn> <fn> } '
                'impl < T : std :: cmp :: PartialEq + std :: fmt :: Display + std :: fmt :: Debug + std :: clone :: Clone > Element < T > { pub <fn> <fn> } '
                '<fn> impl < T : std :: cmp :: PartialEq > PartialEq for Element < T > { fn eq ( & self , other : & Self ) -> bool { '
                'self . name == other . name } } <fn>')


def check_element_rest(src):
    m = re.search(r"#\[cfg\(test\)\]\s*mod\s+tests\b", src)
    toks = tokenize(src[:m.start()] if m else src)
    spans = sorted(find_fn(toks, f)[0::2] for f in ELEMENT_TRANSLATED)
    rest, pos = [], 0
    for a, b in spans:
        if a < pos:
            raise Refuse("the translated functions of src/element.rs are nested in an unexpected way")
        rest += toks[pos:a] + ["<fn>"]
        pos = b
    rest += toks[pos:]
    if " ".join(rest) != ELEMENT_REST:
        raise Refuse("src/element.rs contains something beside the pinned imports, `struct Element`, its accessors, "
                     "equality by name and the translated functions")


def generate(src):
    check_element_rest(src)
    m = re.search(r"#\[cfg\(test\)\]\s*mod\s+tests\b", src)
    if m:
        src = src[:m.start()]
    toks = tokenize(src)
    toks = ["self" if t == "self" else t for t in toks]
    # --- inner_to_serde_struct
    i, j, k = find_fn(toks, REC)
    params = header(toks, i, j, REC)
    if params != ["self", "options", "trace", "struct_names"]:
        raise Refuse("parameters of %s: %s" % (REC, params))
    p = Parser(toks[j:k])
    body, tail = p.block()
    if tail is None or tail[0] != "var":
        raise Refuse("%s must end in the variable it returns" % REC)
    em = Emit("rec")
    if not em.has_rec(body):
        raise Refuse("%s does not call itself" % REC)
    inner = em.stmts(body, "Some (%s, v_trace)" % v(tail[1]))
    # --- to_serde_struct
    i, j, k = find_fn(toks, "to_serde_struct")
    params2 = header(toks, i, j, "to_serde_struct")
    if params2 != ["self", "options"]:
        raise Refuse("parameters of to_serde_struct: %s" % params2)
    p = Parser(toks[j:k])
    body2, tail2 = p.block()
    em2 = Emit("inner_to_serde_struct_rs")
    if tail2 is None or tail2[0] != "call" or tail2[1] != REC:
        raise Refuse("to_serde_struct must end in the call of %s" % REC)
    tr = em2.rec_mut(tail2)[0]
    outer = em2.stmts(body2, "match inner_to_serde_struct_rs fuel %s %s %s %s with\n| None => None\n| Some (r, _) => Some r\nend"
                      % (em2.e(tail2[2]), em2.e(tail2[3][0]), v(tr), em2.e(tail2[3][2])))
    return (
        "(* GENERATED by bin/translate from src/element.rs of the working tree - do not edit.\n"
        "   Regenerated on every run of bin/check C09 / C10; Proofs/RenderRsProofs.v is about these functions.\n"
        "   Every Rust variable x is v_x; a mutation rebinds the variable. *)\n"
        "From XSG.Model Require Import Strings Chars Convert Necessity Element Render RustRender.\n"
        "From Coq Require Import String List.\nImport ListNotations.\nOpen Scope list_scope.\n\n"
        "(* one level of the recursion; `rec` is the function itself with less fuel *)\n"
        "Definition inner_to_serde_struct_body\n"
        "    (rec : element -> options -> list str -> name_table -> option (str * list str))\n"
        "    (v_self : element) (v_options : options)\n"
        "    (v_trace : list str) (v_struct_names : name_table) : option (str * list str) :=\n"
        + indent(inner, 2) + ".\n\n"
        "Fixpoint inner_to_serde_struct_rs (fuel : nat)\n"
        "    : element -> options -> list str -> name_table -> option (str * list str) :=\n"
        "  match fuel with\n  | O => fun _ _ _ _ => None\n  | S fuel => inner_to_serde_struct_body (inner_to_serde_struct_rs fuel)\n  end.\n\n"
        "Definition to_serde_struct_rs (fuel : nat) (v_self : element) (v_options : options) : option str :=\n"
        + indent(outer, 2) + ".\n")
