"""build_struct / parse_tag of src/parser.rs (the event loop and the tag handling: the last part of
the library that was tied to the model by testing only) -> Gallina FUNCTIONS over the types of
coq/Model/Parser.v (coq/Generated/LoopRs.v), used by bin/translate --only loop.

Shallow embedding in continuation-passing style, statement by statement:
  * every Rust variable `x` is `v_x`; a mutation rebinds it; a block that mutates variables of its
    surroundings (`if`, `for`, a `match` with a value) returns them as a tuple;
  * results live in the model's `outcome` monad: `e?` = `obind e (fun q => ..)`, `return Err(x)` = `Err x`;
  * `&mut` parameters are returned next to the result: `build_struct` returns (root, reader),
    `parse_tag` returns (root, known_elements, reader-option);
  * `loop { match reader.read_event_into(&mut buf) { arms } buf.clear(); }` becomes recursion on
    fuel, one unit per event read; the nested `build_struct(reader, x)?` of `parse_tag` is the same
    function one unit lower, started with an empty `known_elements`;
  * primitives with a fixed meaning are in coq/Model/RustLoop.v and in the tables below; `buf` is
    scratch space of the reader and must not be used for anything else.
Anything that is not matched is refused (Refuse -> bin/translate exits 3)."""
import re
from translate_ident import Refuse, tokenize, find_fn

IDENT = re.compile(r"[A-Za-z_][A-Za-z0-9_]*$")
KEYWORDS = {"let", "mut", "for", "in", "if", "while", "return", "match", "else", "loop", "fn", "as", "ref", "move"}


def v(x):
    return "v_" + x


class P:
    def __init__(self, toks):
        self.t, self.i = toks, 0

    def peek(self, k=0):
        return self.t[self.i + k] if self.i + k < len(self.t) else None

    def ctx(self):
        return " ".join(self.t[max(0, self.i - 8):self.i + 5])

    def take(self, *expected):
        for e in expected:
            if self.peek() != e:
                raise Refuse("expected `%s`, found `%s` (... %s)" % (e, self.peek(), self.ctx()))
            self.i += 1

    def opt(self, e):
        if self.peek() == e:
            self.i += 1
            return True
        return False

    def ident(self):
        t = self.peek()
        if t is None or not IDENT.match(t) or t in KEYWORDS:
            raise Refuse("identifier expected, found `%s` (... %s)" % (t, self.ctx()))
        self.i += 1
        return t

    # ---- types (skipped, but must be well bracketed) ----
    def skip_type(self, stops):
        depth = 0
        out = []
        while True:
            t = self.peek()
            if t is None:
                raise Refuse("unterminated type")
            if depth == 0 and t in stops:
                return " ".join(out)
            if t in ("<", "("):
                depth += 1
            if t in (">", ")"):
                depth -= 1
            out.append(t)
            self.i += 1

    # ---- patterns ----
    def pattern(self):
        alts = [self.pattern1()]
        while self.opt("|"):
            alts.append(self.pattern1())
        return alts[0] if len(alts) == 1 else ("por", alts)

    def pattern1(self):
        if self.opt("("):
            items = []
            while not self.opt(")"):
                items.append(self.pattern())
                self.opt(",")
            return ("ptuple", items)
        if self.opt("_"):
            return ("pwild",)
        path = [self.ident()]
        while self.opt("::"):
            path.append(self.ident())
        if self.opt("("):
            args = []
            while not self.opt(")"):
                args.append(self.pattern())
                self.opt(",")
            return ("pctor", "::".join(path), args)
        if len(path) == 1 and path[0] not in ("None",):
            return ("pvar", path[0])
        return ("pctor", "::".join(path), [])

    # ---- expressions ----
    def expr(self):
        if self.opt("!"):
            return ("not", self.expr())
        if self.peek() == "&":
            self.take("&")
            m = self.opt("mut")
            return ("ref", m, self.expr())
        return self.postfix()

    def args(self):
        self.take("(")
        a = []
        while not self.opt(")"):
            a.append(self.expr())
            if self.peek() != ")":
                self.take(",")
        return a

    def postfix(self):
        e = self.primary()
        while True:
            if self.opt("?"):
                e = ("try", e)
            elif self.peek() == "." and self.peek(1) != ".":
                self.take(".")
                name = self.ident()
                if self.peek() == "(":
                    e = ("method", e, name, self.args())
                else:
                    e = ("field", e, name)
            else:
                return e

    def primary(self):
        t = self.peek()
        if t == "(":
            self.take("(")
            items = []
            while not self.opt(")"):
                items.append(self.expr())
                self.opt(",")
            if not items:
                return ("unit",)
            return items[0] if len(items) == 1 else ("tuple", items)
        if t == "match":
            return self.match()
        if t is not None and t.startswith('"'):
            self.i += 1
            return ("str", t)
        path = [self.ident()]
        while self.opt("::"):
            if self.opt("<"):                       # turbofish
                self.skip_type({">"})
                self.take(">")
                continue
            path.append(self.ident())
        name = "::".join(path)
        if self.peek() == "(":
            return ("call", name, self.args())
        return ("var", name) if len(path) == 1 and name != "None" else ("path", name)

    def match(self):
        self.take("match")
        sc = self.expr()
        self.take("{")
        arms = []
        while not self.opt("}"):
            pat = self.pattern()
            self.take("=>")
            if self.peek() == "{":
                body = self.block()
                self.opt(",")
            else:
                if self.peek() == "return":
                    self.take("return")
                    body = [("return", self.expr())]
                else:
                    e = self.expr()
                    if self.opt("="):
                        body = [("assign", e, self.expr())]
                    elif e[0] == "method" and e[2] in MUT_METHODS:
                        body = [("expr", e)]
                    else:
                        body = [("tail", e)]
                if self.peek() != "}":
                    self.take(",")
            arms.append((pat, body))
        return ("match", sc, arms)

    # ---- statements ----
    def block(self):
        self.take("{")
        out = []
        while not self.opt("}"):
            out.append(self.stmt())
        return out

    def stmt(self):
        t = self.peek()
        if t == "let":
            self.take("let")
            self.opt("mut")
            pat = self.pattern()
            if self.opt(":"):
                self.skip_type({"="})
            self.take("=")
            e = self.expr()
            self.take(";")
            return ("let", pat, e)
        if t == "for":
            self.take("for")
            x = self.ident()
            self.take("in")
            it = self.expr()
            return ("for", x, it, self.block())
        if t == "if":
            self.take("if")
            if self.opt("let"):
                pat = self.pattern()
                self.take("=")
                sc = self.expr()
                body = self.block()
                if self.peek() == "else":
                    raise Refuse("`if let .. else` is outside the fragment")
                return ("iflet", pat, sc, body)
            c = self.expr()
            body = self.block()
            if self.peek() == "else":
                raise Refuse("`if .. else` is outside the fragment")
            return ("if", c, body)
        if t == "loop":
            self.take("loop")
            return ("loop", self.block())
        if t == "return":
            self.take("return")
            e = self.expr()
            self.take(";")
            return ("return", e)
        if t == "match":
            m = self.match()
            self.opt(";")
            return ("smatch", m)
        e = self.expr()
        if self.opt("="):
            rhs = self.expr()
            self.take(";")
            return ("assign", e, rhs)
        if self.opt(";"):
            return ("expr", e)
        if self.peek() != "}":
            raise Refuse("`;` expected (... %s)" % self.ctx())
        return ("tail", e)


# ------------------------------------------------------------------ emission

MUT_METHODS = {"push", "set_multiple", "increment", "add_unique_child", "remove_child", "clear"}


def pat_vars(p):
    k = p[0]
    if k == "pvar":
        return {p[1]}
    if k == "pwild":
        return set()
    if k == "ptuple":
        return set().union(*[pat_vars(x) for x in p[1]]) if p[1] else set()
    if k == "pctor":
        return set().union(*[pat_vars(x) for x in p[2]]) if p[2] else set()
    if k == "por":
        return pat_vars(p[1][0])
    raise Refuse("pattern %r" % (p,))


def expr_muts(e):
    """variables of the surroundings an expression may mutate"""
    k = e[0]
    if k in ("var", "path", "str", "unit"):
        return set()
    if k in ("not", "try"):
        return expr_muts(e[1])
    if k == "ref":
        m = expr_muts(e[2])
        if e[1] and e[2][0] == "var":
            m = m | {e[2][1]}
        return m
    if k == "field":
        return expr_muts(e[1])
    if k == "tuple":
        return set().union(*[expr_muts(x) for x in e[1]])
    if k == "method":
        m = set().union(expr_muts(e[1]), *[expr_muts(x) for x in e[3]])
        if e[2] in MUT_METHODS and e[1][0] == "var":
            m = m | {e[1][1]}
        return m
    if k == "call":
        m = set().union(*[expr_muts(x) for x in e[2]]) if e[2] else set()
        if e[1] == "build_struct" and e[2] and e[2][0][0] == "var":
            m = m | {e[2][0][1]}                      # the reader is re-borrowed mutably
        if e[1] == "parse_tag" and len(e[2]) == 4 and e[2][3][0] == "call" and e[2][3][1] == "Some" \
                and e[2][3][2][0][0] == "var":
            m = m | {e[2][3][2][0][1]}
        return m
    if k == "match":
        m = expr_muts(e[1])
        for pat, body in e[2]:
            m |= block_muts(body) - pat_vars(pat)
        return m
    raise Refuse("expression %r" % (e,))


def block_muts(stmts):
    """variables declared outside `stmts` that it may mutate"""
    out, local = set(), set()
    for st in stmts:
        k = st[0]
        if k == "let":
            out |= expr_muts(st[2]) - local
            local |= pat_vars(st[1])
        elif k == "for":
            out |= (expr_muts(st[2]) | (block_muts(st[3]) - {st[1]})) - local
        elif k == "if":
            out |= (expr_muts(st[1]) | block_muts(st[2])) - local
        elif k == "iflet":
            inner = block_muts(st[3])
            pv = pat_vars(st[1])
            alias = st[2][0] == "var" and pv == {st[2][1]} and st[2][1] in inner
            m = (inner - pv) | expr_muts(st[2])
            if alias:
                m = m | {st[2][1]}
            out |= m - local
        elif k == "assign":
            tgt = st[1]
            if tgt[0] == "var":
                out |= ({tgt[1]} | expr_muts(st[2])) - local
            elif tgt[0] == "field" and tgt[1][0] == "var":
                out |= ({tgt[1][1]} | expr_muts(st[2])) - local
            else:
                raise Refuse("assignment target %r" % (tgt,))
        elif k in ("expr", "tail", "return"):
            out |= expr_muts(st[1]) - local
        elif k == "smatch":
            out |= expr_muts(st[1]) - local
        else:
            raise Refuse("statement %r" % (k,))
    return out


def tup(names):
    names = list(names)
    if not names:
        return "tt"
    if len(names) == 1:
        return names[0]
    return "(" + ", ".join(names) + ")"


def ptup(names):
    names = list(names)
    if not names:
        return "_"
    if len(names) == 1:
        return names[0]
    return "'(" + ", ".join(names) + ")"


class Emit:
    """one function.  `kinds`: what a variable is, where the translation depends on it."""

    def __init__(self, fname, ret_muts, kinds):
        self.fname, self.ret_muts, self.kinds = fname, ret_muts, dict(kinds)
        self.n = 0

    def fresh(self):
        self.n += 1
        return "q%d" % self.n

    # -- patterns; `ty` says which constructors Ok / Err / Some mean
    def pat(self, p, ty):
        k = p[0]
        if k == "pvar":
            return v(p[1])
        if k == "pwild":
            return "_"
        if k == "ptuple":
            return "(" + ", ".join(self.pat(x, None) for x in p[1]) + ")"
        if k == "por":
            return "(" + " | ".join(self.pat(x, ty) for x in p[1]) + ")"
        name, args = p[1], p[2]
        if ty == "read":
            if name == "Ok" and len(args) == 1:
                return "RdOk " + self.pat(args[0], "event")
            if name == "Err" and len(args) == 1 and args[0][0] == "pvar":
                return "RdErr err_pos " + v(args[0][1])
        if ty == "event":
            simple = {"Event::Eof": "RsEof", "Event::End": "RsEnd", "Event::Comment": "RsComment", "Event::Decl": "RsDecl",
                      "Event::PI": "RsPI", "Event::DocType": "RsDocType"}
            if name in simple:
                if name != "Event::Eof" and not (len(args) == 1 and args[0][0] == "pwild"):
                    raise Refuse("the payload of %s is not modelled: it may only be matched by `_`" % name)
                return simple[name]
            binder = {"Event::Start": "RsStart", "Event::Empty": "RsEmpty", "Event::Text": "RsText", "Event::CData": "RsCData"}
            if name in binder and len(args) == 1 and args[0][0] in ("pvar", "pwild"):
                return "(%s %s)" % (binder[name], self.pat(args[0], None))
        if ty == "attr":
            if name == "Ok" and len(args) == 1 and args[0][0] in ("pvar", "pwild"):
                return "AOk " + self.pat(args[0], None)
            if name == "Err" and len(args) == 1 and args[0][0] in ("pvar", "pwild"):
                return "AErr " + self.pat(args[0], None)
        if ty in ("optchild", "opt"):
            if name == "Some" and len(args) == 1:
                return "Some " + self.pat(args[0], "nec" if ty == "optchild" else None)
            if name == "None" and not args:
                return "None"
        if ty == "nec":
            if name == "Necessity::Mandatory" and len(args) == 1:
                return "(Mand, %s)" % self.pat(args[0], None)
            if name == "Necessity::Optional" and len(args) == 1:
                return "(Opt, %s)" % self.pat(args[0], None)
        raise Refuse("pattern `%s` (%d arguments) where a %s is matched" % (name, len(args), ty))

    def scrut_type(self, e):
        if e == ("method", ("var", "reader"), "read_event_into", [("ref", True, ("var", "buf"))]):
            return "read"
        if e[0] == "var" and self.kinds.get(e[1]) == "attr":
            return "attr"
        if e[0] == "method" and e[2] == "remove_child":
            return "optchild"
        if e[0] == "var" and self.kinds.get(e[1]) == "optreader":
            return "opt"
        raise Refuse("match on %r: the type of the scrutinee is not known to the translator" % (e,))

    # -- expressions: E(e, k) where k maps a pure Gallina term to the code that follows
    def E(self, e, k):
        kind = e[0]
        if kind == "var":
            return k(v(e[1]))
        if kind == "unit":
            return k("tt")
        if kind == "path":
            if e[1] == "None":
                return k("None")
            raise Refuse("path `%s`" % e[1])
        if kind == "ref":
            return self.E(e[2], k)                       # values instead of references
        if kind == "not":
            return self.E(e[1], lambda t: k("(negb %s)" % t))
        if kind == "tuple":
            return self.Es(e[1], lambda ts: k("(" + ", ".join(ts) + ")"))
        if kind == "try":
            inner = e[1]
            if inner[0] == "call" and inner[1] == "build_struct":
                if len(inner[2]) != 2 or inner[2][0][0] != "var":
                    raise Refuse("build_struct(..) with other arguments than (reader, element)")
                r = inner[2][0][1]
                q = self.fresh()
                return self.E(inner[2][1], lambda t: "obind (build_struct %s %s) (fun '(%s, %s) =>\n%s)" % (
                    v(r), t, q, v(r), k(q)))
            if inner[0] == "call" and inner[1] == "parse_tag":
                a = inner[2]
                if len(a) != 4 or a[2] != ("ref", True, ("var", "known_elements")):
                    raise Refuse("parse_tag(..): arguments")
                q = self.fresh()
                if a[3] == ("path", "None"):
                    ro, back = "None", ""
                    pat = "'(%s, v_known_elements, _)" % q
                elif a[3][0] == "call" and a[3][1] == "Some" and a[3][2] and a[3][2][0][0] == "var":
                    r = a[3][2][0][1]
                    ro = "(Some %s)" % v(r)
                    back = "let %s := reader_back lent %s in\n" % (v(r), v(r))
                    pat = "'(%s, v_known_elements, lent)" % q
                else:
                    raise Refuse("parse_tag(..): the reader argument")
                return self.Es(a[:2], lambda ts: "obind (parse_tag %s %s v_known_elements %s) (fun %s =>\n%s%s)" % (
                    ts[0], ts[1], ro, pat, back, k(q)))
            q = self.fresh()
            return self.E(inner, lambda t: "obind %s (fun %s =>\n%s)" % (t, q, k(q)))
        if kind == "field":
            if e[2] == "key" and e[1][0] == "var":
                return k(v(e[1][1]))                     # an attribute is given by its key
            raise Refuse("field `.%s`" % e[2])
        if kind == "call":
            name, a = e[1], e[2]
            pure = {"to_str": ("(to_str %s)", 1), "count_children": ("(count_children %s)", 1),
                    "tag_optional_children": ("(tag_optional_children_call %s %s %s)", 3),
                    "Element::new": ("(new_element %s %s)", 2), "Some": ("(Some %s)", 1),
                    "Necessity::Mandatory": ("(Mand, %s)", 1), "Necessity::Optional": ("(Opt, %s)", 1),
                    "ParserError::AttrError": ("(AttrError %s)", 1), "ParserError::FromUtf8Error": ("(FromUtf8Error %s)", 1),
                    "Ok": ("(Ok %s)", 1), "Err": ("(Err %s)", 1)}
            if name in ("Vec::new", "HashMap::new") and not a:
                return k("[]")
            if name == "ParserError::QuickXmlError" and len(a) == 2 and a[0] == ("method", ("var", "reader"), "buffer_position", []):
                return self.E(a[1], lambda t: k("(QuickXmlError err_pos %s)" % t))
            if name in pure and len(a) == pure[name][1]:
                return self.Es(a, lambda ts: k(pure[name][0] % tuple(ts)))
            raise Refuse("call of `%s` with %d arguments" % (name, len(a)))
        if kind == "method":
            recv, name, a = e[1], e[2], e[3]
            if name == "name" and not a:
                return self.E(recv, lambda t: k("(fst %s)" % t))
            if name == "attributes" and not a:
                return self.E(recv, lambda t: k("(snd %s)" % t))
            if name == "into_inner" and not a:
                return self.E(recv, k)
            if name == "get_child" and len(a) == 1:
                return self.Es([recv, a[0]], lambda ts: k("(get_child (echildren %s) %s)" % tuple(ts)))
            if name == "merge_attr" and len(a) == 1:
                return self.Es([recv, a[0]], lambda ts: k("(merge_attr %s %s)" % tuple(ts)))
            if name == "contains" and len(a) == 1:
                return self.Es([recv, a[0]], lambda ts: k("(mem %s %s)" % (ts[1], ts[0])))
            if name == "remove_child" and len(a) == 1 and recv[0] == "var":
                q = self.fresh()
                return self.E(a[0], lambda t: "let '(%s, %s) := remove_child_of %s %s in\n%s" % (
                    q, v(recv[1]), v(recv[1]), t, k(q)))
            raise Refuse("method `.%s` with %d arguments" % (name, len(a)))
        if kind == "match":
            raise Refuse("`match` as a sub-expression")
        raise Refuse("expression %r" % (e,))

    def Es(self, es, k):
        def go(i, acc):
            if i == len(es):
                return k(acc)
            return self.E(es[i], lambda t: go(i + 1, acc + [t]))
        return go(0, [])

    # -- a match whose arms end in a value and / or mutate `muts`: value of type outcome (value, muts)
    def match_value(self, m, muts, with_value):
        sc, arms = m[1], m[2]
        ty = self.scrut_type(sc)

        def arm(pat, body):
            fin = (lambda t: "Ok %s" % tup(([t] if with_value else []) + [v(x) for x in muts]))
            return "| %s =>\n%s" % (self.pat(pat, ty), self.S(body, fin, with_value))
        return self.E(sc, lambda t: "match %s with\n%s\nend" % (t, "\n".join(arm(p, b) for p, b in arms)))

    # -- statements.  `fin(t)`: the code after the block, given the value of its tail expression
    #    (t = None when the block has none)
    def S(self, stmts, fin, want_value=False):
        if not stmts:
            if want_value:
                raise Refuse("a block without a value where one is needed")
            return fin(None)
        st, rest = stmts[0], stmts[1:]
        nxt = lambda: self.S(rest, fin, want_value)
        k = st[0]
        if k == "tail":
            if rest:
                raise Refuse("an expression without `;` in the middle of a block")
            if st[1][0] == "match":
                raise Refuse("`match` as the value of a block")
            return self.E(st[1], fin)
        if k == "return":
            e = st[1]
            if e[0] == "call" and e[1] == "Err" and len(e[2]) == 1:
                return self.E(e[2][0], lambda t: "Err %s" % t)
            if e[0] == "call" and e[1] == "Ok" and len(e[2]) == 1:
                return self.E(e[2][0], lambda t: "Ok %s" % tup([t] + [v(x) for x in self.ret_muts]))
            raise Refuse("`return` of something that is neither Ok(..) nor Err(..)")
        if k == "let":
            pat, e = st[1], st[2]
            if e[0] == "match":
                muts = sorted(expr_muts(e))
                code = self.match_value(e, muts, True)
                return "obind (%s) (fun %s =>\n%s)" % (code, ptup([self.pat(pat, None)] + [v(x) for x in muts]), nxt())
            if pat[0] == "pvar":
                if pat[1] == "buf":
                    if e != ("call", "Vec::new", []):
                        raise Refuse("`buf` is the reader's scratch space")
                    return nxt()
                if e[0] == "method" and e[2] == "attributes":
                    self.kinds[pat[1]] = "attrs"             # the attribute iterator of the tag
                return self.E(e, lambda t: "let %s := %s in\n%s" % (v(pat[1]), t, nxt()))
            return self.E(e, lambda t: "let '%s := %s in\n%s" % (self.pat(pat, None), t, nxt()))
        if k == "assign":
            tgt, e = st[1], st[2]
            if tgt[0] == "var":
                return self.E(e, lambda t: "let %s := %s in\n%s" % (v(tgt[1]), t, nxt()))
            if tgt[0] == "field" and tgt[2] == "text" and tgt[1][0] == "var":
                x = v(tgt[1][1])
                return self.E(e, lambda t: "let %s := set_text_opt %s %s in\n%s" % (x, x, t, nxt()))
            raise Refuse("assignment to %r" % (tgt,))
        if k == "expr":
            e = st[1]
            if e[0] == "method" and e[1][0] == "var":
                x, name, a = v(e[1][1]), e[2], e[3]
                if name == "clear" and e[1][1] == "buf" and not a:
                    return nxt()
                if name in ("set_multiple", "increment") and not a:
                    return "let %s := %s %s in\n%s" % (x, name, x, nxt())
                if name == "push" and len(a) == 1:
                    return self.E(a[0], lambda t: "let %s := %s ++ [%s] in\n%s" % (x, x, t, nxt()))
                if name == "add_unique_child" and len(a) == 1:
                    return self.E(a[0], lambda t: "let %s := add_unique_child %s %s in\n%s" % (x, x, t, nxt()))
            if e[0] == "unit":
                return nxt()
            raise Refuse("expression statement %r" % (e,))
        if k == "if":
            muts = sorted(block_muts(st[2]))
            pk, vs = ptup([v(x) for x in muts]), tup([v(x) for x in muts])
            body = self.S(st[2], lambda t: "Ok %s" % vs)
            return self.E(st[1], lambda c: "obind (if %s then\n%s\nelse Ok %s) (fun %s =>\n%s)" % (c, body, vs, pk, nxt()))
        if k == "iflet":
            pat, sc, blk = st[1], st[2], st[3]
            if not (pat[0] == "pctor" and pat[1] == "Some" and len(pat[2]) == 1 and pat[2][0][0] == "pvar"
                    and sc[0] == "var" and self.kinds.get(sc[1]) == "optreader"):
                raise Refuse("`if let` other than `if let Some(x) = <the reader option>`")
            x, y = pat[2][0][1], sc[1]
            inner = block_muts(blk)
            muts = sorted((inner - {x}) | ({y} if x in inner else set()))
            pk = ptup([v(m) for m in muts])
            some_end = tup([("(Some %s)" % v(x)) if m == y else v(m) for m in muts])
            body = self.S(blk, lambda t: "Ok %s" % some_end)
            # inside the arm `x` is the reader itself; bind it under the name the body uses
            return "obind (match %s with\n| Some %s =>\n%s\n| None => Ok %s\nend) (fun %s =>\n%s)" % (
                v(y), v(x), body, tup([v(m) for m in muts]), pk, nxt())
        if k == "for":
            x, it, blk = st[1], st[2], st[3]
            if not (it[0] == "method" and it[2] == "attributes" and not it[3]) and not (it[0] == "var" and self.kinds.get(it[1]) == "attrs"):
                raise Refuse("`for` over something else than the attributes of the tag")
            muts = sorted(block_muts(blk) - {x})
            pk, vs = ptup([v(m) for m in muts]), tup([v(m) for m in muts])
            old = self.kinds.get(x)
            self.kinds[x] = "attr"
            body = self.S(blk, lambda t: "Ok %s" % vs)
            if old is None:
                del self.kinds[x]
            else:
                self.kinds[x] = old
            return self.E(it, lambda t: "obind (for_try %s %s (fun %s %s =>\n%s)) (fun %s =>\n%s)" % (t, vs, pk, v(x), body, pk, nxt()))
        if k == "smatch":
            m = st[1]
            muts = sorted(expr_muts(m))
            code = self.match_value(m, muts, False)
            return "obind (%s) (fun %s =>\n%s)" % (code, ptup([v(x) for x in muts]), nxt())
        raise Refuse("statement `%s`" % k)


def header(toks, i, j):
    return " ".join(toks[i:j])


SIG_BUILD = ("fn build_struct < R > ( reader : & mut Reader < R > , mut root : Element < String > , ) "
             "-> Result < Element < String > , ParserError > where R : BufRead ,")
SIG_TAG = ("fn parse_tag < R > ( mut root : Element < String > , e : & BytesStart < ' _ > , known_elements : & mut Vec < String > , "
           "reader : Option < & mut Reader < R > > , ) -> Result < Element < String > , ParserError > where R : BufRead ,")
SIG_TO_STR = ("fn to_str < T : AsRef < [ u8 ] > > ( e : T ) -> Result < String , ParserError > "
              "{ String :: from_utf8 ( e . as_ref ( ) . to_vec ( ) ) . map_err ( ParserError :: FromUtf8Error ) }")


TRANSLATED_FNS = ["into_struct", "extend_struct", "build_struct", "count_children", "tag_optional_children", "parse_tag"]
PIN_REST = ('use std :: collections :: HashMap ; use std :: io :: BufRead ; use quick_xml :: events :: { BytesStart , Event } ; '
            'use quick_xml :: reader :: Reader ; use crate :: element :: Element ; use crate :: necessity :: Necessity ; '
            'fn to_str < T : AsRef < [ u8 ] > > ( e : T ) -> Result < String , ParserError > { String :: from_utf8 ( e . as_ref ( ) . to_vec ( ) ) '
            '. map_err ( ParserError :: FromUtf8Error ) } # [ derive ( Debug ) ] pub enum ParserError { QuickXmlError ( u64 , quick_xml :: Error ) , '
            'FromUtf8Error ( std :: string :: FromUtf8Error ) , AttrError ( quick_xml :: events :: attributes :: AttrError ) , ParsingError ( String ) , } '
            'impl std :: fmt :: Display for ParserError { fn fmt ( & self , f : & mut std :: fmt :: Formatter < \' _ > ) -> std :: fmt :: Result { '
            'match self { Self :: QuickXmlError ( position , error ) => { write ! ( f , "Error at position {} : {:?}" , position , error ) } '
            'Self :: FromUtf8Error ( e ) => { write ! ( f , "{}" , e ) } Self :: AttrError ( e ) => { write ! ( f , "{}" , e ) } '
            'Self :: ParsingError ( e ) => { write ! ( f , "{}" , e ) } } } } impl std :: error :: Error for ParserError { } '
            'pub <fn> pub <fn> <fn> <fn> <fn> <fn>')
PIN_LIB = ('# [ macro_use ] extern crate log ; mod element ; mod necessity ; mod options ; mod parser ; pub use element :: Element ; '
           'pub use necessity :: { merge_necessity , Necessity } ; pub use options :: { Options , SortBy } ; '
           'pub use parser :: { extend_struct , into_struct , ParserError } ;')


PIN_CARGO = ['[[bin]] name="xml_schema_generator"', '[[bin]] path="src/main.rs"', '[lib] name="xml_schema_generator"', '[lib] path="src/lib.rs"',
             '[dependencies] env_logger={version="0.11.6",optional=true}', '[dependencies] log="0.4.25"',
             '[dependencies] quick-xml={version="0.37.2",features=["serialize"]}', '[dependencies] convert_string="0.2.0"',
             '[dependencies] clap={version="4.5.28",features=["derive"]}', '[features] env_logger=["dep:env_logger"]']


def indent(text, n=2):
    return "\n".join(" " * n + l for l in text.split("\n"))


def generate(src, lib_src=None, cargo_toml=None):
    m = re.search(r"#\[cfg\(test\)\]\s*mod\s+tests\b", src)
    if m:
        src = src[:m.start()]
    toks = tokenize(src)
    # to_str is a primitive: its text is pinned
    i, j, k = find_fn(toks, "to_str")
    if " ".join(toks[i:k]) != SIG_TO_STR:
        raise Refuse("`to_str` is not the pinned conversion")
    # everything of parser.rs outside the six translated function bodies is pinned token by token:
    # the imports, to_str, the error type with its Display text, nothing else
    spans = sorted(find_fn(toks, f)[0::2] for f in TRANSLATED_FNS)
    rest, pos = [], 0
    for a, b in spans:
        rest += toks[pos:a] + ["<fn>"]
        pos = b
    rest += toks[pos:]
    if " ".join(rest) != PIN_REST:
        raise Refuse("src/parser.rs contains something beside the pinned imports, `to_str`, `ParserError` (with its "
                     "Display text) and the six translated functions")
    if cargo_toml is not None:
        # the dependencies and their features decide what the reader and convert_string do
        # (and no section may exist that changes how the crate is built: profiles, patches, a build script)
        sect, keep = None, []
        for line in cargo_toml.split("\n"):
            line = line.strip()
            if line.startswith("["):
                sect = line
                if sect not in ("[package]", "[[bin]]", "[lib]", "[dependencies]", "[dev-dependencies]", "[features]"):
                    raise Refuse("Cargo.toml: section %s (profiles, patches, build settings are outside the pinned manifest)" % sect)
            elif line and not line.startswith("#") and sect in ("[dependencies]", "[features]", "[lib]", "[[bin]]"):
                keep.append(sect + " " + re.sub(r"\s+", "", line))
            elif line and not line.startswith("#") and sect == "[package]":
                key = line.split("=")[0].strip()
                if key not in ("name", "version", "description", "authors", "edition", "license", "repository", "readme", "keywords", "categories"):
                    raise Refuse("Cargo.toml: [package] key `%s`" % key)
                if key == "edition" and re.sub(r"\s+", "", line) != 'edition="2021"':
                    raise Refuse("Cargo.toml: the edition is not 2021")
            elif line and not line.startswith("#") and sect is None:
                raise Refuse("Cargo.toml: a key before the first section")
        if keep != PIN_CARGO:
            raise Refuse("Cargo.toml: dependencies, features or targets differ from the pinned ones: %r" % (keep,))
    if lib_src is not None:
        lm = re.search(r"#\[cfg\(test\)\]\s*mod\s+tests\b", lib_src)
        if " ".join(tokenize(lib_src[:lm.start()] if lm else lib_src)) != PIN_LIB:
            raise Refuse("src/lib.rs is not the pinned list of modules and re-exports")
    # only these functions may exist beside the ones translated elsewhere
    fns = [toks[x + 1] for x in range(len(toks) - 1) if toks[x] == "fn"]
    allowed = {"to_str", "fmt", "into_struct", "extend_struct", "build_struct", "count_children", "tag_optional_children", "parse_tag"}
    if set(fns) - allowed:
        raise Refuse("functions not known to the translator: %s" % ", ".join(sorted(set(fns) - allowed)))

    # ---- parse_tag
    i, j, k = find_fn(toks, "parse_tag")
    if header(toks, i, j) != SIG_TAG:
        raise Refuse("signature of `parse_tag`: %s" % header(toks, i, j))
    p = P(toks[j:k])
    body = p.block()
    em = Emit("parse_tag", ["known_elements", "reader"], {"reader": "optreader"})
    tag_code = em.S(body, lambda t: _final_ok(t, em), True)

    # ---- build_struct: prologue, then the loop
    i, j, k = find_fn(toks, "build_struct")
    if header(toks, i, j) != SIG_BUILD:
        raise Refuse("signature of `build_struct`: %s" % header(toks, i, j))
    p = P(toks[j:k])
    body = p.block()
    if len(body) != 3 or body[0] != ("let", ("pvar", "buf"), ("call", "Vec::new", [])) \
            or body[1] != ("let", ("pvar", "known_elements"), ("call", "Vec::new", [])) or body[2][0] != "loop":
        raise Refuse("build_struct is not `let mut buf = Vec::new(); let mut known_elements = Vec::new(); loop { .. }`")
    lp = body[2][1]
    if len(lp) != 2 or lp[0][0] != "smatch" or lp[1] != ("expr", ("method", ("var", "buf"), "clear", [])):
        raise Refuse("the loop is not `match reader.read_event_into(&mut buf) { .. } buf.clear();`")
    m = lp[0][1]
    if em.scrut_type(m[1]) != "read":
        raise Refuse("the loop does not match on reader.read_event_into(&mut buf)")
    eb = Emit("build_struct", ["reader"], {})
    arms = []
    for pat, blk in m[2]:
        cont = lambda t: "continue_ v_reader v_root v_known_elements"
        arms.append("| %s =>\n%s" % (eb.pat(pat, "read"), indent(eb.S(blk, cont))))
    loop_code = "match rd with\n%s\nend" % "\n".join(arms)

    return (
        "(* GENERATED by bin/translate (bin/translate_loop.py) from src/parser.rs of the working tree - do not edit.\n"
        "   Regenerated on every run of the checks of C03, C06, C07, C08, C11; Proofs/LoopRsProofs.v is about these. *)\n"
        "From XSG.Model Require Import Strings Necessity Element Parser RustLoop.\n"
        "From Coq Require Import String List.\nImport ListNotations.\nOpen Scope list_scope.\n\n"
        "Definition parse_tag_rs (build_struct : list event -> element -> outcome (element * list event))\n"
        "  (v_root : element) (v_e : bytes_start) (v_known_elements : list str) (v_reader : option (list event))\n"
        "  : outcome (element * list str * option (list event)) :=\n"
        + indent(tag_code) + ".\n\n"
        "(* `build_struct` is this loop started with known_elements = [] *)\n"
        "Fixpoint build_struct_rs (mk : nat -> misc_kind) (fuel : nat) (v_reader : list event) (v_root : element)\n"
        "  (v_known_elements : list str) {struct fuel} : outcome (element * list event) :=\n"
        "  match fuel with\n  | O => OutOfFuel\n  | S fuel' =>\n"
        "    let continue_ := build_struct_rs mk fuel' in\n"
        "    let build_struct := fun (r : list event) (x : element) => build_struct_rs mk fuel' r x [] in\n"
        "    let parse_tag := parse_tag_rs build_struct in\n"
        "    let '(rd, v_reader) := read_event_into mk v_reader in\n"
        + indent(loop_code, 4) + "\n  end.\n")


def _final_ok(t, em):
    """the value of the function body: Ok(x) -> Ok (x, &mut parameters)"""
    if t is None or not t.startswith("(Ok ") or not t.endswith(")"):
        raise Refuse("the function does not end in Ok(..)")
    return "Ok %s" % tup([t[4:-1]] + [v(x) for x in em.ret_muts])
