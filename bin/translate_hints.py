"""compute_name_hints (with its nested fill_names and minimal_different_lengths) of src/element.rs
-> terms of coq/Model/RustHints.v (used by bin/translate --only hints).  Idioms are matched token
by token; anything else is refused."""
import re
from translate_ident import Refuse, tokenize, P, find_fn, q, seq


def iter_len_fold(p, x, which):
    """x.iter().map(|v| v.len()).min().unwrap_or(0)  (already consumed: `x .`)"""
    p.take("iter", "(", ")", ".", "map", "(", "|")
    v = p.ident()
    p.take("|", v, ".", "len", "(", ")", ")", ".", which, "(", ")", ".", "unwrap_or", "(", "0", ")")


def nat_expr(p):
    t = p.peek()
    if t is not None and t.isdigit():
        p.i += 1
        return "(ENat %s)" % t
    if t == "minimal_different_lengths":
        p.take("minimal_different_lengths", "(")
        x = p.ident()
        p.take(")")
        return "(ECallMdl %s)" % q(x)
    x = p.ident()
    if p.peek() == ".":
        p.take(".")
        m = p.peek()
        if m == "len":
            p.take("len", "(", ")")
            e = "(ELen %s)" % q(x)
        elif m == "iter" and p.peek(3) == "." and p.peek(4) == "map":
            save = p.i
            # min or max: look ahead for which fold is used
            j = p.i
            which = None
            while j < len(p.t) and p.t[j] not in (";", "{", "}"):
                if p.t[j] in ("min", "max") and p.t[j - 1] == ".":
                    which = p.t[j]
                    break
                j += 1
            if which is None:
                raise Refuse("iterator chain on `%s` is outside the fragment" % x)
            iter_len_fold(p, x, which)
            e = "(%s %s)" % ("EMinLen" if which == "min" else "EMaxLen", q(x))
        elif m == "iter":
            p.take("iter", "(", ")", ".", "collect", "::", "<", "HashSet", "<", "_", ">", ">", "(", ")", ".", "len", "(", ")")
            e = "(EDistinct %s)" % q(x)
        else:
            raise Refuse("`%s.%s` is outside the fragment" % (x, m))
    else:
        e = "(EVar %s)" % q(x)
    if p.peek() == "+":
        p.take("+", "1")
        e = "(EAddOne %s)" % e
    return e


def cond(p):
    a = nat_expr(p)
    p.take("==")
    b = nat_expr(p)
    return "(EEqNat %s %s)" % (a, b)


def skip_macro(p):
    """error!( ... );"""
    p.take("error", "!", "(")
    depth = 1
    while depth:
        t = p.peek()
        if t is None:
            raise Refuse("unterminated macro call")
        p.i += 1
        if t == "(":
            depth += 1
        elif t == ")":
            depth -= 1
    p.opt(";")


def new_of_type(p):
    """`: TYPE = X::new();` -> the constructor by the annotated type"""
    ty = []
    while p.peek() != "=":
        if p.peek() is None:
            raise Refuse("unterminated type annotation")
        ty.append(p.peek())
        p.i += 1
    ty = " ".join(ty)
    p.take("=")
    head = p.ident()
    p.take("::", "new", "(", ")", ";")
    table = {
        "VecDeque < String >": ("VecDeque", "ENewDeque", "deque"),
        "HashMap < String , Vec < VecDeque < String > > >": ("HashMap", "ENewBuckets", "buckets"),
        "HashMap < String , usize >": ("HashMap", "ENewHints", "hints"),
        "Vec < String >": ("Vec", "ENewStrs", "strs"),
    }
    if ty not in table or table[ty][0] != head:
        raise Refuse("`let x: %s = %s::new()` is outside the fragment" % (ty, head))
    return table[ty][1], table[ty][2]


class S:
    def __init__(self, p):
        self.p = p
        self.kind = {}
        self.alias = {}   # b -> (buffer, j) inside an enumerate loop

    def block(self):
        p = self.p
        p.take("{")
        out = []
        while p.peek() != "}":
            out.append(self.stmt())
        p.take("}")
        return seq(out)

    def stmt(self):
        p = self.p
        t = p.peek()
        if t == "error":
            skip_macro(p)
            return "SSkip"
        if t == "let":
            p.take("let")
            p.opt("mut")
            x = p.ident()
            if p.opt(":"):
                ctor, kind = new_of_type(p)
                self.kind[x] = kind
                return "(SLet %s %s)" % (q(x), ctor)
            p.take("=")
            el = p.ident()
            p.take(".", "formatted_name", "(", ")", ";")
            self.kind[x] = "str"
            return "(SLet %s (EFormattedName %s))" % (q(x), q(el))
        if t == "match":
            # the bucket idiom
            p.take("match")
            m = p.ident()
            p.take(".", "get_mut", "(", "&")
            k = p.ident()
            p.take(")", "{", "Some", "(")
            n = p.ident()
            p.take(")", "=>", "{", n, ".", "push", "(")
            tr = p.ident()
            p.take(".", "clone", "(", ")", ")", ";", "}", "None", "=>", "{", m, ".", "insert", "(", k, ",", "vec", "!", "[", tr, ".", "clone", "(", ")", "]", ")", ";", "}", "}")
            return "(SBucketAdd %s %s %s)" % (q(m), q(k), q(tr))
        if t == "fill_names":
            p.take("fill_names", "(")
            a = "self" if p.opt("self") else p.ident()
            if p.peek() == ".":
                p.take(".", "inner_t", "(", ")")
            p.take(",")
            p.opt("&"); p.opt("mut")
            b = p.ident()
            p.take(",")
            p.opt("&"); p.opt("mut")
            c = p.ident()
            p.take(")", ";")
            return "(SCallFillNames %s %s %s)" % (q(a), q(b), q(c))
        if t == "for":
            p.take("for")
            if p.peek() == "(":
                p.take("(")
                a = p.ident()
                p.take(",")
                b = p.ident()
                p.take(")", "in")
                src = p.ident()
                p.take(".")
                if p.peek() == "iter_mut":
                    p.take("iter_mut", "(", ")", ".", "enumerate", "(", ")", ".", "take", "(")
                    n = nat_expr(p)
                    p.take(")")
                    self.alias[b] = (src, a)
                    body = self.block()
                    del self.alias[b]
                    return "(SForEnumMut %s %s %s %s %s)" % (q(a), q(b), q(src), n, body)
                p.take("iter", "(", ")")
                self.kind[b] = "deques"
                return "(SForBuckets %s %s %s %s)" % (q(a), q(b), q(src), self.block())
            x = p.ident()
            p.take("in")
            if p.peek() == "0":
                p.take("0", ".", ".")
                n = nat_expr(p)
                return "(SForRange %s %s %s)" % (q(x), n, self.block())
            el = p.ident()
            p.take(".", "children", ".", "iter", "(", ")")
            return "(SForChildren %s %s %s)" % (q(x), q(el), self.block())
        if t == "if":
            p.take("if")
            if p.peek() == "let":
                p.take("let", "Some", "(")
                x = p.ident()
                p.take(")", "=")
                src = p.ident()
                p.take(".", "get", "(")
                idx = p.ident()
                p.take(")")
                k = self.kind.get(src)
                if k == "deques":
                    self.kind[x] = "deque"
                    th = self.block()
                    p.take("else")
                    el = self.block()
                    return "(SIfLetGetDeque %s %s %s %s %s)" % (q(x), q(src), q(idx), th, el)
                if k == "deque":
                    th = self.block()
                    p.take("else")
                    el = self.block()
                    return "(SIfLetGetItem %s %s %s %s %s)" % (q(x), q(src), q(idx), th, el)
                raise Refuse("`%s.get(..)` on something whose type is not known" % src)
            c = cond(p)
            p.take("{")
            if p.peek() == "return":
                p.take("return")
                e = nat_expr(p)
                p.take(";", "}")
                return "(SIfReturn %s %s)" % (c, e)
            p.i -= 1
            th = self.block()
            p.take("else")
            el = self.block()
            return "(SIfElse %s %s %s)" % (c, th, el)
        x = p.ident()
        p.take(".")
        m = p.ident()
        if m == "push_front":
            p.take("(")
            y = p.ident()
            p.take(".", "clone", "(", ")", ")", ";")
            return "(SPushFront %s (EVar %s))" % (q(x), q(y))
        if m == "pop_front":
            p.take("(", ")", ";")
            return "(SPopFront %s)" % q(x)
        if m == "push":
            p.take("(", "String", "::", "new", "(", ")", ")", ";")
            return "(SPushEmpty %s)" % q(x)
        if m == "push_str":
            p.take("(")
            y = p.ident()
            p.take(")", ";")
            if x not in self.alias:
                raise Refuse("`%s.push_str` outside an enumerate loop over a Vec<String>" % x)
            v, j = self.alias[x]
            return "(SPushStrAt %s %s %s)" % (q(v), q(j), q(y))
        if m == "insert":
            p.take("(")
            k = p.ident()
            p.take(".", "clone", "(", ")", ",")
            v = nat_expr(p)
            p.take(")", ";")
            return "(SHintInsert %s %s %s)" % (q(x), q(k), v)
        raise Refuse("statement `%s.%s` is outside the fragment" % (x, m))


def params_of(toks, i, j, name):
    hp = P(toks[i:j])
    hp.take("fn", name)
    if hp.peek() == "<":
        depth = 0
        while True:
            t = hp.peek()
            hp.i += 1
            if t == "<":
                depth += 1
            elif t == ">":
                depth -= 1
                if depth == 0:
                    break
            elif t is None:
                raise Refuse("unterminated generics")
    hp.take("(")
    params = []
    while hp.peek() != ")":
        if hp.peek() == "&":
            hp.take("&")
            hp.opt("mut")
        if hp.peek() == "self":
            hp.i += 1
            params.append("self")
        else:
            x = hp.ident()
            hp.take(":")
            depth = 0
            while not (hp.peek() in (",", ")") and depth == 0):
                t = hp.peek()
                hp.i += 1
                if t in ("<", "["):
                    depth += 1
                elif t in (">", "]"):
                    depth -= 1
                elif t is None:
                    raise Refuse("unterminated parameter type")
            params.append(x)
        hp.opt(",")
    return params


def body_of(toks, j, k, kinds, nested=()):
    p = P(toks[j:k])
    sp = S(p)
    sp.kind.update(kinds)
    p.take("{")
    stmts = []
    result = None
    while True:
        if p.peek() == "fn" and p.peek(1) in nested:
            d = 0
            while True:
                t = p.peek()
                p.i += 1
                if t == "{":
                    d += 1
                elif t == "}":
                    d -= 1
                    if d == 0:
                        break
                elif t is None:
                    raise Refuse("unterminated nested function")
            continue
        if p.peek() == "}":
            break
        # the tail expression
        if p.peek(1) == "}" and p.i + 2 == len(p.t):
            result = "(EVar %s)" % q(p.ident())
            break
        if p.peek(1) == "." and p.peek(2) == "iter" and p.peek(5) == "." and p.peek(6) == "map":
            # vecs.iter().map(|v| v.len()).max().unwrap_or(0) as the tail
            save = p.i
            try:
                e = nat_expr(p)
                if p.peek() == "}" and p.i + 1 == len(p.t):
                    result = e
                    break
            except Refuse:
                pass
            p.i = save
        stmts.append(sp.stmt())
    p.take("}")
    return seq(stmts), result


def generate(src_text):
    m = re.search(r"#\[cfg\(test\)\]\s*mod\s+tests\b", src_text)
    toks = tokenize(src_text[:m.start()] if m else src_text)
    out = {}
    spec = (("fill_names", {}, ()), ("minimal_different_lengths", {"vecs": "deques"}, ()), ("compute_name_hints", {}, ("fill_names", "minimal_different_lengths")))
    for name, kinds, nested in spec:
        i, j, k = find_fn(toks, name)
        params = params_of(toks, i, j, name)
        body, result = body_of(toks, j, k, kinds, nested)
        out[name] = (params, body, result)

    def fn_def(name, t):
        params, body, result = t
        return ("Definition %s : fn :=\n  {| fn_params := [%s];\n     fn_body :=\n       %s;\n     fn_result := %s |}.\n"
                % (name, "; ".join(q(p) for p in params), body, ("Some %s" % result) if result else "None"))
    return (
        "(* GENERATED by bin/translate from src/element.rs of the working tree - do not edit.\n"
        "   Regenerated on every run of bin/check C14; Proofs/HintsRsProofs.v is about these terms. *)\n"
        "From XSG.Model Require Import Strings Render RustHints.\n"
        "From Coq Require Import String List.\nImport ListNotations.\n\n"
        + fn_def("fill_names_rs", out["fill_names"]) + "\n"
        + fn_def("minimal_different_lengths_rs", out["minimal_different_lengths"]) + "\n"
        + fn_def("compute_name_hints_rs", out["compute_name_hints"]))
