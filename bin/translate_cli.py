"""src/main.rs (+ src/args.rs, Options::derive of src/options.rs) -> Gallina functions over the types
of coq/Model/Cli.v (coq/Generated/CliRs.v), used by bin/translate --only cli.

`run` is translated statement by statement (shallow embedding, like translate_render.py): the
effects on the outside world are appended to a list `eff`, a `?` on a failing call returns
`(eff, false)`, the final `Ok(())` returns `(eff, true)`.  Fixed readings: `fs::read_to_string(path)?`
is the oracle `read` (RFail / RText events) of Model/Cli.v, `Reader::from_str(&xml)` is the event list,
`into_struct(&mut reader)?` is `into_struct_ev` (the parser is NOT translated, it is tied by the
correspondence check), `root.to_serde_struct(&options)` is the model's `to_serde_struct` (C09rs.v
proves its source equal to it), `File::create(&p)?` is the oracle `create_ok` + effect
CreateTruncate, `write!(f, "{}", x)?` is WriteFile x (write errors are not modelled),
`println!("{}", x)` is Stdout (x ++ "\\n"), `info!(..)` with a literal and plain field arguments is
nothing.  `main` and the whole of src/args.rs are PINNED token by token (their meaning is fixed in
the generated file: defaults of the three flags, the two `From` impls, `unwrap_or_else` = one
diagnostic on stderr and exit status 1): any edit there is refused.  Anything unknown is refused."""
import hashlib, re
from translate_ident import Refuse, tokenize, find_fn
from translate_render import Parser, plain_str, fmt_parts, v

ARGS_PIN = None   # filled below (token text of src/args.rs of the pinned tree)
MAIN_PIN = ('fn main ( ) { # [ cfg ( feature = "env_logger" ) ] env_logger :: init ( ) ; let config = Args :: parse ( ) ; '
            'run ( config ) . unwrap_or_else ( | err | { error ! ( "{err}" ) ; # [ cfg ( not ( feature = "env_logger" ) ) ] '
            'eprintln ! ( "{err}" ) ; process :: exit ( 1 ) ; } ) ; }')
DERIVE_PIN = 'fn derive ( mut self , derive : & str ) -> Self { self . derive = derive . to_string ( ) ; self }'
ARGS_SHA = "40ba4c8774859d73abce779a0f8f6cf3d857c89a41350c42b5a4c06f723d7f82"


def fn_text(toks, name):
    i, j, k = find_fn(toks, name)
    return " ".join(toks[i:k])


class Run:
    def __init__(self, toks):
        self.p = Parser(toks)
        self.vars = {}   # rust variable -> kind

    def field(self, name):
        """config . NAME"""
        self.p.take("config", ".", name)

    def skip_info(self):
        p = self.p
        p.take("info", "!", "(")
        if not p.peek().startswith('"'):
            raise Refuse("info! without a literal")
        p.i += 1
        while p.opt(","):
            x = p.ident()
            while p.opt("."):
                p.ident()
        p.take(")", ";")

    def stmts(self, end):
        """statements up to the token `end` (not consumed) -> Gallina with a hole {REST} at the end"""
        p = self.p
        out = []
        while p.peek() != end:
            t = p.peek()
            if t == "info":
                self.skip_info()
            elif t == "let":
                p.take("let")
                p.opt("mut")
                x = p.ident()
                if p.opt(":"):
                    p.take("Options")
                p.take("=")
                if p.peek() == "fs":
                    p.take("fs", "::", "read_to_string", "(")
                    self.field("input_path")
                    p.take(")", "?", ";")
                    out.append("match read with\n| RFail => (eff, false)\n| RText %s =>\n{REST}\nend" % v(x))
                elif p.peek() == "Reader":
                    p.take("Reader", "::", "from_str", "(", "&")
                    y = p.ident()
                    p.take(")", ";")
                    out.append("let %s := %s in\n{REST}" % (v(x), v(y)))
                elif p.peek() == "into_struct":
                    p.take("into_struct", "(", "&", "mut")
                    y = p.ident()
                    p.take(")", "?", ";")
                    out.append("match into_struct_ev %s with\n| Ok %s =>\n{REST}\n| _ => (eff, false)\nend" % (v(y), v(x)))
                elif p.peek() == "config":
                    self.field("parser")
                    p.take(".", "into", "(", ")", ";")
                    out.append("let %s := parser_into_rs (c_parser v_config) in\n{REST}" % v(x))
                elif p.peek() == "File":
                    p.take("File", "::", "create", "(", "&")
                    p.ident()
                    p.take(")", "?", ";")
                    out.append("if create_ok then\nlet eff := eff ++ [CreateTruncate] in\n{REST}\nelse (eff, false)")
                elif p.peek().startswith('"'):
                    lit = p.peek()
                    p.i += 1
                    p.take(".", "to_owned", "(", ")", "+", "&")
                    r = p.ident()
                    p.take(".", "to_serde_struct", "(", "&")
                    o = p.ident()
                    p.take(")", ";")
                    out.append("let %s := %s ++ to_serde_struct %s %s in\n{REST}" % (v(x), plain_str(lit), v(o), v(r)))
                else:
                    raise Refuse("`let %s = %s ...` is outside the fragment" % (x, p.peek()))
            elif t == "write":
                p.take("write", "!", "(")
                p.ident()
                p.take(",", '"{}"', ",")
                x = p.ident()
                p.take(")", "?", ";")
                out.append("let eff := eff ++ [WriteFile %s] in\n{REST}" % v(x))
            elif t == "println":
                p.take("println", "!", "(", '"{}"', ",")
                x = p.ident()
                p.take(")", ";")
                out.append("let eff := eff ++ [Stdout (%s ++ nl)] in\n{REST}" % v(x))
            elif t == "match":
                p.take("match")
                self.field("output_path")
                p.take("{", "Some", "(")
                p.ident()
                p.take(")", "=>", "{")
                a = self.stmts("}")
                p.take("}")
                p.opt(",")
                p.take("None", "=>", "{")
                b = self.stmts("}")
                p.take("}")
                p.opt(",")
                p.take("}")
                out.append("if c_output v_config then\n%s\nelse\n%s" % (a, b))
                # both arms continue with the rest: {REST} stays in both
            elif t == "Ok":
                p.take("Ok", "(", "(", ")", ")")
                if p.peek() != end:
                    raise Refuse("`Ok(())` is not last")
                out.append("(eff, true)")
                break
            else:
                x = p.ident()
                if p.peek() == "=":
                    p.take("=")
                    y = p.ident()
                    if y != x:
                        raise Refuse("`%s = %s...`" % (x, y))
                    p.take(".", "derive", "(", "&")
                    self.field("derive")
                    p.take(")", ";")
                    out.append("let %s := options_derive_rs %s (c_derive v_config) in\n{REST}" % (v(x), v(x)))
                elif p.peek() == ".":
                    p.take(".", "sort", "=")
                    self.field("sort")
                    p.take(".", "into", "(", ")", ";")
                    out.append("let %s := set_sort %s (sort_into_rs (c_sort v_config)) in\n{REST}" % (v(x), v(x)))
                else:
                    raise Refuse("statement starting with `%s` is outside the fragment" % x)
        res = "{REST}"
        for piece in out:
            res = res.replace("{REST}", piece)
        return res


def generate(main_src, args_src, options_src):
    mt = tokenize(main_src)
    if fn_text(mt, "main") != MAIN_PIN:
        raise Refuse("`main` of src/main.rs differs from the pinned text")
    at = tokenize(args_src)
    sha = hashlib.sha256(" ".join(at).encode()).hexdigest()
    if sha != ARGS_SHA:
        raise Refuse("src/args.rs differs from the pinned text (token hash %s)" % sha)
    ot = tokenize(options_src)
    if fn_text(ot, "derive") != DERIVE_PIN:
        raise Refuse("`Options::derive` differs from the pinned text")
    # everything in main.rs outside `main` and `run` must be `mod` / `use` items
    i, j, k = find_fn(mt, "run")
    i2, j2, k2 = find_fn(mt, "main")
    rest = mt[:min(i, i2)] + mt[min(k, k2):max(i, i2)] + mt[max(k, k2):]
    items = " ".join(rest)
    for it in [x.strip() for x in items.split(";") if x.strip()]:
        if not re.match(r"(mod|use) [A-Za-z0-9_:{}, ]+$", it):
            raise Refuse("src/main.rs contains an item besides `main`, `run`, `mod` and `use`: %s" % it[:60])
    head = " ".join(mt[i:j])
    if head != "fn run ( config : Args ) -> Result < ( ) , Box < dyn std :: error :: Error > >":
        raise Refuse("signature of `run`: %s" % head)
    r = Run(mt[j + 1:k])
    body = r.stmts("}")
    if "{REST}" in body:
        raise Refuse("`run` does not end in `Ok(())`")
    return (
        "(* GENERATED by bin/translate from src/main.rs, src/args.rs and src/options.rs of the working tree -\n"
        "   do not edit.  Regenerated on every run of bin/check C12; Proofs/CliRsProofs.v is about these. *)\n"
        "From XSG.Model Require Import Strings Necessity Element Parser Render Cli.\n"
        "From Coq Require Import String List NArith.\nImport ListNotations.\nOpen Scope list_scope.\n\n"
        "(* src/args.rs (pinned): the flags as clap hands them over, defaults filled in *)\n"
        "Inductive sortby_arg := SAUnsorted | SAName.\n"
        "Record config := { c_parser : parser_arg; c_derive : str; c_sort : sortby_arg; c_output : bool }.\n"
        "Definition parser_default_rs : parser_arg := PQuickXmlDe.\n"
        "Definition derive_default_rs : str := s \"Serialize, Deserialize\".\n"
        "Definition sort_default_rs : sortby_arg := SAUnsorted.\n"
        "Definition sort_into_rs (x : sortby_arg) : sortby := match x with SAUnsorted => Unsorted | SAName => XmlName end.\n"
        "Definition parser_into_rs (x : parser_arg) : options :=\n  match x with PQuickXmlDe => quick_xml_de | PSerdeXmlRs => serde_xml_rs end.\n"
        "(* src/options.rs, Options::derive (pinned) and the assignment to the public field `sort` *)\n"
        "Definition options_derive_rs (o : options) (d : str) : options :=\n"
        "  {| text_identifier := text_identifier o; attribute_prefix := attribute_prefix o; derive := d; sort := sort o |}.\n"
        "Definition set_sort (o : options) (x : sortby) : options :=\n"
        "  {| text_identifier := text_identifier o; attribute_prefix := attribute_prefix o; derive := derive o; sort := x |}.\n\n"
        "(* src/main.rs, fn run: the effects so far and whether it returned Ok *)\n"
        "Definition run_rs (v_config : config) (read : read_result) (create_ok : bool) : list effect * bool :=\n"
        "  let eff : list effect := [] in\n" + "\n".join("  " + l for l in body.split("\n")) + ".\n\n"
        "(* src/main.rs, fn main (pinned): unwrap_or_else prints one diagnostic and exits with 1 *)\n"
        "Definition main_rs (v_config : config) (read : read_result) (create_ok : bool) : list effect * N :=\n"
        "  let '(eff, ok) := run_rs v_config read create_ok in\n"
        "  if ok then (eff, 0%N) else (eff ++ [Stderr], 1%N).\n")
