# per-property configuration of bin/check
PROPS = {
    "C15": {
        "corr": ["C15Corr"],
        "projection": "list: the Vec<Necessity<T>> returned by merge_necessity (T = u8 and T = String)",
        "level": "proof",
        "explanation": "theorems C15_* over all lists of any item type with decidable equality; correspondence model-vs-implementation exhaustive over a small alphabet plus random",
        "assumptions": ["Rust PartialEq on the item type is a decidable equality (u8, String)"],
    },
    "C03": {
        "corr": ["CoreCorr"],
        "projection": "events (DOM -> reader events), tree (full internal Element state after parse/extend), dom (document-level presentation of the model)",
        "level": "proof",
        "explanation": "inference exactness: theorems over all documents; correspondence on exhaustive small documents and random sequences; oracle = Spec.infer applied to the implementation's tree",
        "assumptions": ["the reader event stream recorded by an independent pass is what into_struct/extend_struct consume (quick_xml::Reader is the input of the model)"],
    },
}
