# per-property configuration of bin/check
PROPS = {
    "C15": {
        "corr": ["C15Corr"],
        "projection": "list: the Vec<Necessity<T>> returned by merge_necessity (T = u8 and T = String)",
        "level": "proof",
        "explanation": "theorems C15_* over all lists of any item type with decidable equality; correspondence model-vs-implementation exhaustive over a small alphabet plus random",
        "assumptions": ["Rust PartialEq on the item type is a decidable equality (u8, String)"],
    },
}
