# per-property configuration of bin/check
DOC_ASSUME = ["the reader event stream recorded by an independent pass is what into_struct/extend_struct consume (quick_xml::Reader is the input of the model)",
              "character classes are modelled exactly on the alphabet Sigma = ASCII + U+00A0..U+052F (compared exhaustively with std on every run); the generators draw names from Sigma only"]
PROPS = {
    "C15": {
        "corr": ["C15Corr"],
        "projection": "list: the Vec<Necessity<T>> returned by merge_necessity (T = u8 and T = String)",
        "level": "proof",
        "explanation": "theorems C15_* over all lists of any item type with decidable equality; correspondence model-vs-implementation exhaustive over a small alphabet plus random",
        "assumptions": ["Rust PartialEq on the item type is a decidable equality (u8, String)"],
    },
    "C01": {
        "corr": ["CoreCorr", "CharCorr"],
        "projection": "events, tree (full internal state), dom, bytes (hash of the rendering)",
        "level": "proof",
        "explanation": "oracle on the implementation's output: admits_b: each source document checked against the struct definitions parsed back from the implementation's rendering",
        "assumptions": DOC_ASSUME,
    },
    "C03": {
        "corr": ["CoreCorr", "CharCorr"],
        "projection": "events, tree (full internal state), dom, bytes",
        "level": "proof",
        "explanation": "oracle on the implementation's output: Spec.infer (presence in all occurrences / max count per occurrence / any text, from the DOM) against the implementation's tree; reflects_b: parsed rendering mirrors the tree",
        "assumptions": DOC_ASSUME,
    },
    "C04": {
        "corr": ["CoreCorr", "CharCorr"],
        "projection": "tree, bytes",
        "level": "proof",
        "explanation": "oracle on the implementation's output: wf_b on the parsed rendering (unique legal struct names, unique legal identifiers, types defined and used once); reflects_b",
        "assumptions": DOC_ASSUME,
    },
    "C09": {
        "corr": ["CoreCorr", "CharCorr"],
        "projection": "events, tree, dom, bytes",
        "level": "proof",
        "explanation": "oracle on the implementation's output: first-appearance order via Spec.infer (attribute order and positions), reflects_b in output order (sorted by XML name under XmlName), only_order_b between the two renderings",
        "assumptions": DOC_ASSUME,
    },
    "C10": {
        "corr": ["CoreCorr", "CharCorr"],
        "projection": "tree, bytes",
        "level": "proof",
        "explanation": "oracle on the implementation's output: derive_b, erased_eqb (structs/fields/identifiers/types/order independent of prefix, text identifier, derive, preset), rename-iff inside reflects_b",
        "assumptions": DOC_ASSUME,
    },
    "C14": {
        "corr": ["CoreCorr", "CharCorr"],
        "projection": "tree, bytes",
        "level": "proof",
        "explanation": "oracle on the implementation's output: names_b: every struct name = PascalCase of the nearest ancestors' names ++ own ++ digits, unqualified when the PascalCase name is unique in the tree, first struct = root",
        "assumptions": DOC_ASSUME,
    },
}
