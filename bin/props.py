# per-property configuration of bin/check
DOC_ASSUME = ["the reader event stream recorded by an independent pass is what into_struct/extend_struct consume (quick_xml::Reader is the input of the event-level model; for the default configuration Model/Lexer.v models the reader itself and is compared with it on the inputs of every run)",
              "character classes are modelled exactly on the alphabet Sigma = ASCII + U+00A0..U+052F (compared exhaustively with std on every run); the generators draw names from Sigma only"]
PROPS = {
    "C15": {
        "prop_files": ["C15", "C15rs"],
        "translate": "necessity",
        "corr": ["C15Corr"],
        "projection": "list: the Vec<Necessity<T>> returned by merge_necessity (T = u8 and T = String)",
        "level": "proof",
        "explanation": "theorems C15_* over all lists of any item type with decidable equality; the model is tied to the code twice: bin/translate turns the current text of src/necessity.rs into a term of Model/RustLite.v on every run and C15_source_is_model proves that term equal to the model function for all inputs (C15rs.v), and the correspondence check runs model and implementation on the same inputs (exhaustive over a small alphabet plus random, four item types)",
        "assumptions": ["Rust PartialEq on the item type is a decidable equality (u8, String)"],
    },
    "C01": {
        "prop_files": ["C01", "C01oracle", "C01extend", "C16render", "EventLevel", "C09rs"],
        "translate": "render",
        "corr": ["CoreCorr", "CharCorr", "ReparseCorr", "OpsCorr"],
        "projection": "events, tree (full internal state), dom, bytes (hash of the rendering)",
        "level": "proof",
        "explanation": "oracle on the implementation's output: admits_b: each source document checked against the struct definitions parsed back from the implementation's rendering; the field rendering of src/element.rs (to_serde_struct / inner_to_serde_struct), which the C01 theorems speak about, is additionally tied by translation (Generated/RenderRs.v, C09_source_to_serde_struct in C09rs.v)",
        "assumptions": DOC_ASSUME,
    },
    "C03": {
        "prop_files": ["C03", "C16render", "DomEquiv", "C03rs", "SourceProps"],
        "translate": "element,parser",
        "corr": ["CoreCorr", "CharCorr", "ReparseCorr", "OpsCorr"],
        "projection": "events, tree (full internal state), dom, bytes",
        "level": "proof",
        "explanation": "oracle on the implementation's output: Spec.infer (presence in all occurrences / max count per occurrence / any text, from the DOM) against the implementation's tree; reflects_b: parsed rendering mirrors the tree",
        "assumptions": DOC_ASSUME,
    },
    "C04": {
        "prop_files": ["C04", "C04legal", "C04wf", "C04oracle", "Reparse", "C04rs"],
        "translate": "ident",
        "corr": ["CoreCorr", "CharCorr", "ReparseCorr"],
        "projection": "bytes (the model renders the implementation's own tree; the parser's internal state is not part of this check)",
        "level": "proof",
        "explanation": "oracle on the implementation's output: wf_b on the parsed rendering (unique legal struct names, unique legal identifiers, types defined and used once); reflects_b",
        "assumptions": DOC_ASSUME,
    },
    "C09": {
        "prop_files": ["C09", "Oracles09_10_14", "C09rs"],
        "translate": "render",
        "corr": ["CoreCorr", "CharCorr", "ReparseCorr"],
        "projection": "events, tree, dom, bytes",
        "level": "proof",
        "explanation": "oracle on the implementation's output: first-appearance order via Spec.infer (attribute order and positions), reflects_b in output order (sorted by XML name under XmlName), only_order_b between the two renderings; the field rendering of src/element.rs (to_serde_struct / inner_to_serde_struct, incl. the two sorts) is additionally tied by translation: bin/translate_render.py turns its current text into the Gallina functions of Generated/RenderRs.v on every run and C09_source_to_serde_struct proves them equal to the model's to_serde_struct byte for byte (C09rs.v)",
        "assumptions": DOC_ASSUME,
    },
    "C10": {
        "prop_files": ["C10", "Oracles09_10_14", "C10rs", "C09rs"],
        "translate": "options,render",
        "corr": ["CoreCorr", "CharCorr", "ReparseCorr"],
        "projection": "bytes (the model renders the implementation's own tree; the parser's internal state is not part of this check)",
        "level": "proof",
        "explanation": "oracle on the implementation's output: derive_b, erased_eqb (structs/fields/identifiers/types/order independent of prefix, text identifier, derive, preset), rename-iff inside reflects_b; the option presets (C10rs.v) and the field rendering of src/element.rs (derive line, rename rule, prefix and text identifier: C09rs.v, C09_source_to_serde_struct) are additionally tied by translation",
        "assumptions": DOC_ASSUME,
    },
    "C14": {
        "prop_files": ["C14", "Oracles09_10_14", "C14rs", "C14hints"],
        "translate": "names,hints",
        "corr": ["CoreCorr", "CharCorr", "ReparseCorr"],
        "projection": "bytes (the model renders the implementation's own tree; the parser's internal state is not part of this check)",
        "level": "proof",
        "explanation": "oracle on the implementation's output: names_b: every struct name = PascalCase of the nearest ancestors' names ++ own ++ digits, unqualified when the PascalCase name is unique in the tree, first struct = root",
        "assumptions": DOC_ASSUME,
    },
    "C05": {
        "partial": 'PARTIAL: the theorem covers independence from the iteration order of the one hash container the code iterates; independence from threads / processes / allocation addresses is covered by the repetition check (same input rendered in-process, on fresh threads and in fresh processes) because the model has no notion of them',
        "corr": ["CoreCorr", "CharCorr", "ReparseCorr"],
        "projection": "tree, bytes",
        "level": "proof",
        "explanation": "oracle on the implementation's output: repetition: in-process (fresh HashMap seeds), fresh threads, fresh processes give byte-identical renderings",
        "assumptions": DOC_ASSUME,
    },
    "C06": {
        "prop_files": ["C06", "DomEquiv", "EventLevel"],
        "corr": ["CoreCorr", "CharCorr", "ReparseCorr", "OpsCorr"],
        "projection": "events, tree, dom, bytes",
        "level": "proof",
        "explanation": "oracle on the implementation's output: metamorphic relations on the implementation: permutation, repetition, element-less extension leave the canonical schema unchanged; monotone along the sequence; faulty extension is Err; plus Spec.infer (batch = union)",
        "assumptions": DOC_ASSUME,
    },
    "C11": {
        "partial": 'buffer sizes and expand_empty_elements are tokenizer behaviour: modelled (Model/Lexer.v: a BufReader of any capacity delivers lex bs, the expanding reader expand (lex bs)) and compared with the real reader on the inputs of every run (six capacities); the byte-level theorems C11_bytes_* of Properties/Lexer.v are about that model',
        "prop_files": ["C11", "DomEquiv", "EventLevel"],
        "corr": ["CoreCorr", "CharCorr", "ReparseCorr"],
        "projection": "events, tree, dom, bytes",
        "level": "proof",
        "explanation": "oracle on the implementation's output: metamorphic: other values/text/whitespace, text<->CDATA, comments/PIs/declaration/DOCTYPE, <x/> <-> <x></x>, expand_empty_elements, BufReader capacities: byte-identical renderings",
        "assumptions": DOC_ASSUME,
    },
    "C07": {
        "partial": 'PARTIAL: the theorems cover termination and the absence of the modelled panic sites (u32 counter, renderer loop) for every event stream; panics or hangs inside quick_xml / std / convert_string, stack consumption per nesting level and allocation failure cannot be exhibited by the model and are covered by execution only (hostile byte strings through every reader configuration and buffer size under catch_unwind + watchdog, debug build with overflow checks)',
        "prop_files": ["C07", "C04", "EventLevel"],
        "corr": ["CoreCorr", "CharCorr", "ReparseCorr"],
        "projection": "tree (or error class, payload and position) for every reader configuration, bytes of every Ok result",
        "level": "proof",
        "explanation": "oracle on the implementation's output: total: the outcome is Ok or Err, never a panic / hang; rendering every Ok result returns",
        "assumptions": DOC_ASSUME,
    },
    "C08": {
        "partial": "the reader's notion of a syntax error is the oracle the property names (EErr events of the recorded stream); the theorems relate the nested consumer to a flat scan of that stream; for the default configuration the reader itself is modelled (Model/Lexer.v, compared with quick_xml on the inputs of every run) and Properties/Lexer.v states the property for every BYTE STRING (LEX_no_stray_end, C08_bytes_parse_err_iff, C08_bytes_position); error payloads are not modelled, only their kind and position",
        "corr": ["CoreCorr", "CharCorr", "ReparseCorr"],
        "projection": "tree (or error class, payload and position)",
        "level": "proof",
        "explanation": "oracle on the implementation's output: or_verdict: the verdict equals the first fault of a flat left-to-right scan of the reader events (NoRoot when the first input has no element), with the reader's error and byte position",
        "assumptions": DOC_ASSUME,
    },
    "C16": {
        "prop_files": ["C16", "C16render", "C16wf", "C04wf", "C16rs", "SourceProps"],
        "translate": "element,parser",
        "corr": ["CoreCorr", "CharCorr", "OpsCorr"],
        "projection": "tree-api: the full Element state after every operation and what remove_child returned; bytes of the rendering of the final state",
        "level": "proof",
        "explanation": "bin/translate turns the current text of the construction operations of src/element.rs (add_unique, new, set_multiple, get_child, remove_child, add_unique_child, set_child_optional) into terms of Model/RustElem.v on every run and C16_source_* prove each equal to the model function for all inputs (C16rs.v); oracles on the implementation's states: unique child/attribute names hereditarily after every step, step_ok (adding a present name changes nothing, marking optional keeps the subtree, removal returns and removes exactly the named child), reflects_b and wf_b on the rendering of the final tree",
        "assumptions": ["character classes exact on Sigma; generators draw names from Sigma only"],
    },
    "C12": {
        "partial": "PARTIAL: the theorems cover the effect sequence of cli_run for every argument combination and input outcome; clap's parsing, std::fs and exit-status delivery are the operating system's and are observed by running the built binary",
        "prop_files": ["C12", "C12rs"],
        "translate": "cli",
        "corr": ["CoreCorr", "CharCorr", "CliCorr"],
        "needs_bin": True,
        "projection": "process: exit status, stdout bytes (hash), stderr non-empty, output file created/modified and its bytes (hash)",
        "level": "proof",
        "explanation": "oracle: every invocation compared with the library called directly with the corresponding Options (header + rendering, newline on stdout, file exact, nothing on stdout / no file effect when the input is at fault); src/main.rs is additionally tied by translation: bin/translate_cli.py turns the current text of `run` into the Gallina function run_rs of Generated/CliRs.v on every run (main, src/args.rs and Options::derive are pinned token by token) and C12_source_main proves it equal to cli_run (C12rs.v)",
        "assumptions": ["clap's parsing of the flags, std::fs and exit-code delivery are the operating system's; observed by running the binary"],
    },
    "C02": {
        "prop_files": ["C02", "C04wf", "EventLevel"],
        "partial": 'PARTIAL: acceptance / deny_unknown_fields / values-held are theorems about Model/Deser.v, a model of quick_xml::de that is validated (verdict and string leaves, sources and damaged copies) against the real deserializer on every run; that rustc accepts the source is C04 (theorem) plus compiling every generated program; neither rustc nor quick_xml::de is verified',
        "corr": ["CoreCorr", "CharCorr", "DeserCorr", "ReparseCorr"],
        "projection": "bytes of the rendered program (model rendering of the implementation's own tree); the program itself is then compiled and run",
        "level": "proof",
        "harness_timeout": 3000,
        "explanation": "every generated program is compiled by rustc (unchanged, edition 2021, serde_derive macros in scope) and quick_xml::de::from_str (features serialize + overlapped-lists) is run on each of its source documents; every attribute value and text token must occur in the deserialized value; reflects_b and wf_b on the rendered source",
        "assumptions": DOC_ASSUME + ["rustc, serde_derive and the deserializer are validated per generated program by execution, not proved"],
    },
    "C13": {
        "prop_files": ["C13", "C04wf"],
        "partial": 'PARTIAL: as C02 with serde-xml-rs 0.6.0; the text clause fails for struct-typed elements (known finding K1, proved of the model as C13_known_text_dropped and reported as KNOWN-FINDING by the check)',
        "corr": ["CoreCorr", "CharCorr", "DeserCorr", "ReparseCorr"],
        "projection": "bytes of the rendered program (model rendering of the implementation's own tree); the program itself is then compiled and run",
        "level": "proof",
        "harness_timeout": 3000,
        "explanation": "every generated program is compiled by rustc (unchanged, edition 2021, serde_derive macros in scope) and serde_xml_rs::from_str (0.6.0) is run on each of its source documents; every attribute value and text token must occur in the deserialized value; reflects_b and wf_b on the rendered source",
        "assumptions": DOC_ASSUME + ["rustc, serde_derive and the deserializer are validated per generated program by execution, not proved"],
    },
}

# The theorems of these properties speak about `to_serde_struct`; they are about the code only through
# the translation of the field rendering (C09rs.v), so their checks regenerate and re-prove it too
# (round 7: C01-m14 edited the renderer and was missed by the check of the property it was filed under).
for _p in ("C02", "C03", "C04", "C05", "C13", "C14", "C16"):
    _s = PROPS[_p]
    _s["prop_files"] = _s.get("prop_files", [_p]) + ["C09rs"]
    _s["translate"] = ",".join(x for x in [_s.get("translate"), "render"] if x)

# into_struct / extend_struct (src/parser.rs) are tied by translation too (C06rs.v): attached to the
# checks whose theorems are stated about into_struct_ev / extend_struct_ev
# ... and so are the event loop `build_struct` and the tag handling `parse_tag` (C08rs.v; shallow
# translation by bin/translate_loop.py): with these the whole parser is a term translated from the
# current source and proved equal to the model's
for _p in ("C03", "C06", "C08", "C11"):
    _s = PROPS[_p]
    _s["prop_files"] = _s.get("prop_files", [_p]) + ["C06rs", "C08rs"]
    _s["translate"] = ",".join(x for x in [_s.get("translate"), "entry", "loop"] if x)
# C01 and C09 (first appearance in the documents) are stated about the parser's result as well
for _p in ("C01", "C09"):
    _s = PROPS[_p]
    _s["prop_files"] = _s.get("prop_files", [_p]) + ["C06rs", "C08rs"]
    _s["translate"] = ",".join(x for x in [_s.get("translate"), "entry", "loop"] if x)

# The library end to end, source terms only (Library.v: parser of EntryRs + LoopRs, then the renderer
# of RenderRs): the property's main theorem stated for that composition
for _p in ("C01", "C03", "C05", "C06", "C09", "C11"):
    _s = PROPS[_p]
    _s["prop_files"] = _s.get("prop_files", [_p]) + [f for f in ("C09rs", "C06rs", "C08rs", "Library") if f not in _s.get("prop_files", [])]
    _have = (_s.get("translate") or "").split(",")
    _s["translate"] = ",".join([x for x in _have if x] + [x for x in ("render", "entry", "loop") if x not in _have])

# C12 end to end: the translated program against the composition of translated parser and renderer
_s = PROPS["C12"]
_s["prop_files"] = _s.get("prop_files", ["C12"]) + ["C09rs", "C06rs", "C08rs", "Program"]
_s["translate"] = ",".join(x for x in [_s.get("translate"), "render", "entry", "loop"] if x)

# C07 ("rendering any Ok result with any options returns"; "parsing and extending return Ok or Err"):
# C09_source_to_serde_struct shows the translated renderer returns a value for every tree and option
# (Some: no stuck primitive, the recursion bottoms out with fuel = number of elements), and the entry
# points are total around the loop - its check re-proves both ties as well
_s = PROPS["C07"]
_s["prop_files"] = _s.get("prop_files", ["C07"]) + ["C09rs", "C06rs", "C08rs", "Library"]
_s["translate"] = ",".join(x for x in [_s.get("translate"), "render", "entry", "loop"] if x)

# The step from bytes to reader events: Model/Lexer.v (quick_xml's reader in its default configuration
# as a byte-at-a-time automaton), tied to the real reader by the lexer correspondence (group `lex`,
# Corr/LexCorr.v) that the byte-level checks (C07, C08) and every document-based check run on their
# own inputs.  Properties/Lexer.v restates the byte-level clauses for EVERY byte string
# (LEX_no_stray_end discharges the hypothesis of C08_parse_err_iff; C07_bytes_*; C11_bytes_*).
for _p in ("C07", "C08", "C11"):
    _s = PROPS[_p]
    _s["prop_files"] = _s.get("prop_files", [_p]) + ["Lexer"]
# Documents as bytes (Properties/LexerDoc.v): the lexer model on the serialisation `ser` of a byte-level
# document tree is `events_of` of its abstraction, so the DOM-level theorems of C03 (exactness) and
# C11 (structure only; replacing attribute values / text) are theorems from bytes to the inferred tree
for _p in ("C01", "C03", "C06", "C09", "C11"):
    _s = PROPS[_p]
    _s["prop_files"] = _s.get("prop_files", [_p]) + ["LexerDoc"]
for _p in ("C01", "C06"):
    _s = PROPS[_p]
    _s["prop_files"] = _s.get("prop_files", [_p]) + ["LexerDoc2"]
for _p in ("C01", "C03", "C04", "C05", "C06", "C07", "C08", "C09", "C10", "C11", "C14"):
    _s = PROPS[_p]
    if "LexCorr" not in _s["corr"]:
        _s["corr"] = _s["corr"] + ["LexCorr"]

# The translated field rendering (C09rs.v) reads its callees `Map::new` / `get_name`, `compute_name_hints`,
# `compute_struct_names`, `contains_only_text`, `starts_with_xmlns` as the model functions their own
# translations are proved equal to (C04rs.v, C14hints.v, C14rs.v, C16rs.v).  Round 11 of the seeded
# changes (C16-m22: `create_unused_name` computes its suffix in one step) showed the hole: a check that
# re-proves the field rendering but not its callees says nothing about an edit of a callee.  Every
# check that regenerates the field rendering now regenerates and re-proves the callees as well.
for _p, _s in PROPS.items():
    _have = [x for x in (_s.get("translate") or "").split(",") if x]
    if "render" in _have:
        _s["translate"] = ",".join(_have + [x for x in ("element", "ident", "names", "hints") if x not in _have])
        _s["prop_files"] = _s.get("prop_files", [_p]) + [f for f in ("C16rs", "C04rs", "C14rs", "C14hints") if f not in _s.get("prop_files", [_p])]

# The same closure for the other callees read as model functions: the translated event loop calls
# `count_children` / `tag_optional_children` (own translation: part `parser`, C03rs.v) and the element
# operations (part `element`, C16rs.v); `merge_attr` of the element operations calls `merge_necessity`
# (part `necessity`, C15rs.v).  Round 12: C05-m21 edited `tag_optional_children` and was reported by the
# check of C05 through its replays only, not as a broken obligation.
for _p, _s in PROPS.items():
    _have = [x for x in (_s.get("translate") or "").split(",") if x]
    _files = _s.get("prop_files", [_p])
    if "loop" in _have:
        _have += [x for x in ("parser", "element") if x not in _have]
        _files = _files + [f for f in ("C03rs", "C16rs") if f not in _files]
    if "element" in _have:
        _have += [x for x in ("necessity",) if x not in _have]
        _files = _files + [f for f in ("C15rs",) if f not in _files]
    if _have:
        _s["translate"] = ",".join(_have)
        _s["prop_files"] = _files
