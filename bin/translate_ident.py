"""src/element/identifier.rs -> terms of coq/Model/RustIdent.v (used by bin/translate --only ident).
Refuses (raises Refuse) on any construct outside the fragment."""
import re


class Refuse(Exception):
    pass


TOK = re.compile(r"""
    (?P<ws>\s+)
  | (?P<lc>//[^\n]*)
  | (?P<id>[A-Za-z_][A-Za-z0-9_]*)
  | (?P<num>[0-9]+)
  | (?P<str>"(?:[^"\\]|\\.)*")
  | (?P<chr>'(?:[^'\\])')
  | (?P<op>::|=>|==|!=|->|&&|\|\||\+=|[{}()\[\]<>;:,.=&!|*+\-/#?'])
""", re.X | re.S)

TYPES = {"TextContent": "TText", "Attribute": "TAttr", "ChildElement": "TChild"}


def tokenize(text):
    text = text.replace("r#type", "r_type")
    out, i = [], 0
    while i < len(text):
        m = TOK.match(text, i)
        if not m:
            raise Refuse("cannot tokenize at offset %d: %r" % (i, text[i:i + 30]))
        i = m.end()
        if m.lastgroup in ("ws", "lc"):
            continue
        out.append(m.group(m.lastgroup))
    return out


def coq_str(lit):
    """a Rust string literal token -> a Coq term of type str"""
    body = lit[1:-1]
    if "\\" in body or '"' in body:
        raise Refuse("escape sequences in string literals are outside the fragment: %s" % lit)
    return '(s "%s")' % body


def q(x):
    return '"%s"%%string' % x


class P:
    def __init__(self, toks):
        self.t, self.i = toks, 0
        self.kind = {}   # variable -> 'element' | 'child' | 'attr'

    def peek(self, k=0):
        return self.t[self.i + k] if self.i + k < len(self.t) else None

    def take(self, *expected):
        for e in expected:
            if self.peek() != e:
                raise Refuse("expected `%s`, found `%s` (... %s)" % (e, self.peek(), " ".join(self.t[max(0, self.i - 6):self.i + 4])))
            self.i += 1

    def opt(self, e):
        if self.peek() == e:
            self.i += 1
            return True
        return False

    def ident(self):
        x = self.peek()
        if x is None or not re.match(r"[A-Za-z_][A-Za-z0-9_]*$", x) or x in ("let", "mut", "for", "in", "if", "while", "return", "match", "else"):
            raise Refuse("expected an identifier, found `%s` (... %s)" % (x, " ".join(self.t[max(0, self.i - 6):self.i + 4])))
        self.i += 1
        return x

    def is_str(self):
        t = self.peek()
        return t is not None and t.startswith('"')

    # ---- expressions
    def type_lit(self):
        self.take("Type", "::")
        k = self.ident()
        if k not in TYPES:
            raise Refuse("unknown Type::%s" % k)
        return TYPES[k]

    def reserved_of(self):
        """`self.reserved_names` / `X.reserved_names` -> the variable"""
        x = "self" if self.opt("self") else self.ident()
        self.take(".", "reserved_names")
        return x

    def value(self):
        self.opt("&")
        t = self.peek()
        if self.is_str():
            self.i += 1
            e = "(EStr %s)" % coq_str(t)
            if self.peek() == "." and self.peek(1) == "to_string":
                self.take(".", "to_string", "(", ")")
            return e
        if t == "0":
            self.i += 1
            return "EZero"
        if t == "format":
            self.take("format", "!", "(")
            fmt = self.peek()
            if not self.is_str():
                raise Refuse("format! without a literal format string")
            self.i += 1
            args = []
            while self.opt(","):
                args.append(self.value())
            self.take(")")
            body = fmt[1:-1]
            if "\\" in body or "{{" in body or "}}" in body:
                raise Refuse("format string %s is outside the fragment" % fmt)
            pieces = body.split("{}")
            if len(pieces) != len(args) + 1:
                raise Refuse("format string %s does not match its %d arguments" % (fmt, len(args)))
            parts = []
            for k, pc in enumerate(pieces):
                if pc:
                    parts.append('FLit (s "%s")' % pc)
                if k < len(args):
                    parts.append("FArg %s" % args[k])
            return "(EFormat [%s])" % "; ".join(parts)
        if t == "HashMap":
            self.take("HashMap", "::", "new", "(", ")")
            return "ENewMap"
        if t == "ReservedNames":
            self.take("ReservedNames", "::", "new", "(", ")")
            return "ENewReserved"
        if t == "Type":
            return "(ETy %s)" % self.type_lit()
        x = "self" if self.opt("self") else self.ident()
        # postfix chain
        if self.peek() != ".":
            return "(EVar %s)" % q(x)
        self.take(".")
        m = self.ident()
        if m in ("clone", "to_string") and self.peek() == "(":
            self.take("(", ")")
            return "(EVar %s)" % q(x)
        if m == "create_unused_name":
            self.take("(")
            nm = self.value()
            self.take(",")
            ty = self.value()
            self.take(")")
            return "(ECallCreate %s %s %s)" % (q(x), nm, ty)
        if m == "to_valid_key":
            self.take("(")
            b = self.value()
            self.take(")")
            return "(EToValidKey (EVar %s) %s)" % (q(x), b)
        if m == "name" and self.kind.get(x) == "element":
            self.take(".", "to_string", "(", ")")
            return "(EElemName %s)" % q(x)
        if m == "inner_t":
            self.take("(", ")", ".")
            n = self.ident()
            if n == "name" and self.kind.get(x) == "child":
                self.take(".", "to_string", "(", ")")
                return "(EChildName %s)" % q(x)
            if n == "to_string" and self.kind.get(x) == "attr":
                self.take("(", ")")
                return "(EAttrName %s)" % q(x)
            raise Refuse("`%s.inner_t().%s` is outside the fragment" % (x, n))
        raise Refuse("`%s.%s` is outside the fragment" % (x, m))

    def atom_cond(self):
        if self.opt("!"):
            return "(ENot %s)" % self.atom_cond()
        # "lit" == name
        if self.is_str():
            lit = self.peek()
            self.i += 1
            self.take("==")
            x = self.ident()
            return "(EEq (EStr %s) (EVar %s))" % (coq_str(lit), q(x))
        save = self.i
        x = "self" if self.opt("self") else self.ident()
        if self.peek() == "==":
            self.take("==")
            if self.peek() == "Type":
                return "(ETypeIs %s %s)" % (q(x), self.type_lit())
            if self.is_str():
                lit = self.peek()
                self.i += 1
                return "(EEq (EVar %s) (EStr %s))" % (q(x), coq_str(lit))
            raise Refuse("comparison with `%s` is outside the fragment" % self.peek())
        if self.peek() == ".":
            self.take(".")
            m = self.ident()
            if m == "reserved_names":
                self.take(".", "contains", "(")
                a = self.value()
                self.take(")")
                return "(EContains (EReserved %s) %s)" % (q(x), a)
            if m == "ends_with":
                self.take("(")
                if not self.is_str():
                    raise Refuse("ends_with without a literal")
                lit = self.peek()
                self.i += 1
                self.take(")")
                return "(EEndsWith (EVar %s) %s)" % (q(x), coq_str(lit))
        self.i = save
        raise Refuse("condition starting with `%s` is outside the fragment" % self.peek())

    def cond(self):
        e = self.atom_cond()
        while self.opt("&&"):
            e = "(EAnd %s %s)" % (e, self.atom_cond())
        return e

    # ---- statements
    def block(self):
        self.take("{")
        out = []
        while self.peek() != "}":
            out.append(self.stmt())
        self.take("}")
        return seq(out)

    def stmt(self):
        t = self.peek()
        if t == "if":
            self.take("if")
            c = self.cond()
            self.take("{", "return")
            e = self.value()
            self.take(";", "}")
            return "(SIfReturn %s %s)" % (c, e)
        if t == "let":
            self.take("let")
            self.opt("mut")
            x = self.ident()
            self.take("=")
            e = self.value()
            self.take(";")
            return "(SLet %s %s)" % (q(x), e)
        if t == "while":
            self.take("while")
            c = self.cond()
            return "(SWhile %s %s)" % (c, self.block())
        if t == "for":
            self.take("for")
            x = self.ident()
            self.take("in")
            el = self.ident()
            self.take(".")
            f = self.ident()
            self.take(".", "iter", "(", ")")
            if self.kind.get(el) != "element" or f not in ("children", "attributes"):
                raise Refuse("`for %s in %s.%s.iter()` is outside the fragment" % (x, el, f))
            self.kind[x] = "child" if f == "children" else "attr"
            b = self.block()
            return "(%s %s %s %s)" % ("SForChildren" if f == "children" else "SForAttrs", q(x), q(el), b)
        # self.reserved_names.push(e); | x += 1; | x = e; | map.insert((k, Type::T), v);
        x = "self" if self.opt("self") else self.ident()
        if self.peek() == "+=":
            self.take("+=", "1", ";")
            return "(SAddOne %s)" % q(x)
        if self.peek() == "=":
            self.take("=")
            e = self.value()
            self.take(";")
            return "(SAssign %s %s)" % (q(x), e)
        if self.peek() == ".":
            self.take(".")
            m = self.ident()
            if m == "reserved_names":
                self.take(".", "push", "(")
                e = self.value()
                self.take(")", ";")
                return "(SPushReserved %s %s)" % (q(x), e)
            if m == "insert":
                self.take("(", "(")
                k = self.value()
                self.take(",")
                ty = self.type_lit()
                self.take(")", ",")
                v = self.value()
                self.opt(",")
                self.take(")", ";")
                return "(SInsert %s %s %s %s)" % (q(x), k, ty, v)
        raise Refuse("statement starting with `%s` is outside the fragment" % x)


def seq(stmts):
    if not stmts:
        return "SSkip"
    out = stmts[-1]
    for s in reversed(stmts[:-1]):
        out = "(SSeq %s %s)" % (s, out)
    return out


def find_fn(tokens, name):
    for i in range(len(tokens) - 1):
        if tokens[i] == "fn" and tokens[i + 1] == name:
            j = i
            while tokens[j] != "{":
                j += 1
            k, depth = j, 0
            while True:
                if tokens[k] == "{":
                    depth += 1
                elif tokens[k] == "}":
                    depth -= 1
                    if depth == 0:
                        return i, j, k + 1
                k += 1
    raise Refuse("function `%s` not found" % name)


def translate_fn(toks, name):
    i, j, k = find_fn(toks, name)
    hp = P(toks[i:j])
    hp.take("fn", name)
    if hp.peek() == "<":
        depth = 0
        while True:
            t = hp.peek()
            hp.i += 1
            if t == "<":
                depth += 1
            elif t == ">":
                depth -= 1
                if depth == 0:
                    break
            elif t is None:
                raise Refuse("unterminated generics")
    hp.take("(")
    params = []
    while hp.peek() != ")":
        if hp.peek() == "&":
            hp.take("&")
            hp.opt("mut")
        if hp.peek() == "self":
            hp.i += 1
            params.append("self")
        else:
            x = hp.ident()
            hp.take(":")
            depth = 0
            while not (hp.peek() in (",", ")") and depth == 0):
                t = hp.peek()
                hp.i += 1
                if t == "<":
                    depth += 1
                elif t == ">":
                    depth -= 1
                elif t is None:
                    raise Refuse("unterminated parameter type")
            params.append(x)
        hp.opt(",")
    body = P(toks[j:k])
    if name == "new":
        if len(params) != 1:
            raise Refuse("Map::new has %d parameters" % len(params))
        body.kind[params[0]] = "element"
    body.take("{")
    stmts = []
    result = None
    while True:
        # the tail expression: `x` or `Map { map }` directly before the closing brace
        if body.peek(1) == "}" and body.i + 2 == len(body.t):
            result = "(EVar %s)" % q(body.ident())
            break
        if body.peek() == "Map" and body.peek(1) == "{":
            body.take("Map", "{")
            result = "(EVar %s)" % q(body.ident())
            body.take("}")
            if body.i + 1 != len(body.t):
                raise Refuse("something follows the result expression")
            break
        if body.peek() == "}":
            raise Refuse("the function does not end with a result expression")
        stmts.append(body.stmt())
    body.take("}")
    return params, seq(stmts), result


def strip_tests(text):
    m = re.search(r"#\[cfg\(test\)\]\s*mod\s+tests\b", text)
    return text[:m.start()] if m else text


def generate(src_text):
    toks = tokenize(strip_tests(src_text))
    joined = " ".join(toks)
    if "struct ReservedNames { reserved_names : Vec < String > , }" not in joined:
        raise Refuse("`struct ReservedNames` is not the expected one (one field reserved_names: Vec<String>)")
    if "pub enum Type { TextContent , Attribute , ChildElement , }" not in joined:
        raise Refuse("`enum Type` is not the expected one")
    if "fn new ( ) -> Self { Self { reserved_names : vec ! [ ] , } }" not in joined:
        raise Refuse("`ReservedNames::new` is not the expected text")
    # Map::new is the `new` with a parameter: the second `fn new`
    idx = [i for i in range(len(toks) - 1) if toks[i] == "fn" and toks[i + 1] == "new"]
    if len(idx) != 2:
        raise Refuse("expected exactly two functions called `new`")
    create = translate_fn(toks, "create_unused_name")
    mapnew = translate_fn(toks[idx[1]:], "new")

    def fn_def(name, t):
        params, body, result = t
        return ("Definition %s : fn :=\n  {| fn_params := [%s];\n     fn_body :=\n       %s;\n     fn_result := %s |}.\n"
                % (name, "; ".join(q(p) for p in params), body, result))
    return (
        "(* GENERATED by bin/translate from src/element/identifier.rs of the working tree - do not edit.\n"
        "   Regenerated on every run of bin/check C04; Proofs/IdentRsProofs.v is about these terms.\n"
        "   `r#type` is written r_type. *)\n"
        "From XSG.Model Require Import Strings Render RustIdent.\n"
        "From Coq Require Import String List.\nImport ListNotations.\n\n"
        + fn_def("create_unused_name_rs", create) + "\n" + fn_def("map_new_rs", mapnew))
