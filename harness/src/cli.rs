//! C12: the built command-line program against the library and the Coq model `cli_run`
use crate::core::*;
use crate::emit::{Eval, Hist, Shards};
use crate::json::{self, J};
use crate::rng::Rng;
use crate::xml::*;
use crate::Ctx;
use std::process::Command;

const HEADER: &str = "use serde::{Deserialize, Serialize};\n\n";

pub fn run(ctx: &mut Ctx) {
    let bin = std::env::var("XSG_BIN").expect("XSG_BIN");
    let evals = vec![Eval { label: "cli", func: "ev_cli".into(), role: "corr" }];
    let imports = "From XSG.Model Require Import Strings Necessity Element Parser Render Cli.\nFrom XSG.Corr Require Import Common Oracles CoreCorr CliCorr.\nFrom Coq Require Import String Uint63.";
    let mut sh = Shards::new(&ctx.out, "cli", imports, "clicase", evals, "show_cli", 100);
    let mut hist = Hist::default();
    let mut samples: Vec<J> = vec![];
    let mut distinct = std::collections::HashSet::new();
    let mut evaluations = 0i64;
    let mut rng = ctx.rng.fork();
    let mut fails: Vec<J> = vec![];
    let dir = ctx.out.join("fs");
    std::fs::create_dir_all(&dir).unwrap();
    let pools = crate::docprops::name_pools();
    let n = if ctx.thorough { 4000 } else { 320 };
    // environment variables the source mentions (any ALL-CAPS string literal): the program's output
    // may not depend on them, so a third of the invocations set each of them
    let mut env_names: Vec<String> = vec![];
    for f in ["main.rs", "args.rs", "lib.rs", "options.rs", "parser.rs", "element.rs", "necessity.rs"] {
        if let Ok(text) = std::fs::read_to_string(format!("/repo/src/{}", f)) {
            let b: Vec<char> = text.chars().collect();
            let mut i = 0;
            while i < b.len() {
                if b[i] == '"' {
                    let mut j = i + 1;
                    while j < b.len() && b[j] != '"' && b[j] != '\n' {
                        j += 1;
                    }
                    let lit: String = b[i + 1..j.min(b.len())].iter().collect();
                    if lit.len() >= 5 && lit.chars().all(|c| c.is_ascii_uppercase() || c.is_ascii_digit() || c == '_') && lit.chars().next().map_or(false, |c| c.is_ascii_uppercase()) && !env_names.contains(&lit) {
                        env_names.push(lit);
                    }
                    i = j + 1;
                } else {
                    i += 1;
                }
            }
        }
    }
    for extra in ["XML_SCHEMA_GENERATOR_DERIVE", "XML_SCHEMA_GENERATOR_SORT", "XML_SCHEMA_GENERATOR_PARSER", "XSG_OPTIONS", "LANG", "LC_ALL", "NO_COLOR", "CLICOLOR_FORCE", "TERM", "COLUMNS"] {
        if !env_names.contains(&extra.to_string()) {
            env_names.push(extra.to_string());
        }
    }
    ctx.meta.push(("x_environment_variables_varied", J::A(env_names.iter().map(json::s).collect())));
    for i in 0..n {
        // ---- input file
        let in_path = dir.join(format!("in{}.xml", i));
        let kind = match i % 8 {
            0 | 1 | 2 | 3 => "valid",
            4 => "malformed",
            5 => "non-utf8",
            6 => "missing",
            _ => "no-element",
        };
        let (names, attrs) = &pools[rng.below(pools.len())];
        let mut g = GenCfg::basic(names, attrs);
        g.max_nodes = rng.range(3, 25);
        let d = gen_doc(&mut rng, &g, names[0]);
        let mut st = Style::new(rng.fork());
        let mut bytes = write_doc(&d, &mut st).into_bytes();
        if kind == "valid" && i % 16 == 0 {
            // a large file with a multi-byte character across a 64 KiB / 128 KiB boundary (anything
            // read or validated in blocks)
            let boundary = *rng.pick(&[65536usize, 131072, 8192, 4096]);
            let ch = *rng.pick(&["\u{e9}", "\u{20ac}", "\u{1F600}"]);
            let mut big: Vec<u8> = b"<!--".to_vec();
            let pad = boundary - 1 - big.len() - if rng.chance(1, 2) { 0 } else { ch.len() - 2 };
            big.extend(std::iter::repeat(b'x').take(pad));
            big.extend_from_slice(ch.as_bytes());
            big.extend(std::iter::repeat(b'y').take(rng.range(10, 3000)));
            big.extend_from_slice(b"-->");
            big.extend_from_slice(&bytes);
            bytes = big;
            hist.add("input:large-file-multibyte-at-block-boundary");
        }
        if kind == "valid" && i % 16 == 8 {
            // a document type declaration in front (HTML5-style, external subset, internal subset)
            let dt = *rng.pick(&["<!DOCTYPE html>\n", "<!doctype html>", "<!DOCTYPE html PUBLIC \"-//W3C//DTD XHTML 1.0 Strict//EN\" \"http://www.w3.org/TR/xhtml1/DTD/xhtml1-strict.dtd\">\n", "<!DOCTYPE r SYSTEM \"r.dtd\">", "<!DOCTYPE r [<!ENTITY e \"v\"><!ELEMENT r ANY>]>\n", "\u{feff}<!DOCTYPE html>\n"]);
            let mut with: Vec<u8> = dt.as_bytes().to_vec();
            with.extend_from_slice(&bytes);
            bytes = with;
            hist.add("input:doctype-in-front");
        }
        match kind {
            "malformed" => {
                let bad: [&[u8]; 5] = [b"<a><b></a>", b"<a x=1/>", b"<a x='1' x='2'/>", b"<a></b>", b"<a><!-- "];
                if rng.chance(1, 2) {
                    bytes = bad[rng.below(bad.len())].to_vec();
                } else {
                    bytes.extend_from_slice(b"<a x=1>");
                }
            }
            "non-utf8" => {
                let at = rng.below(bytes.len() + 1);
                bytes.insert(at, 0xFF);
            }
            "no-element" => bytes = rng.pick(&["", " \n", "<!-- c -->", "<?xml version=\"1.0\"?>\n"]).as_bytes().to_vec(),
            _ => {}
        }
        if kind != "missing" {
            std::fs::write(&in_path, &bytes).unwrap();
        } else {
            let _ = std::fs::remove_file(&in_path);
        }
        // ---- options
        let parser = *rng.pick(&[None, Some(false), Some(true)]); // Some(true) = serde-xml-rs
        let derive: Option<String> = match rng.below(5) {
            0 | 1 => None,
            2 => Some("".into()),
            3 => Some("Debug, Clone".into()),
            _ if i % 4 == 3 && rng.chance(1, 3) => Some("@file".to_string()), // with a file named `file` in the working directory (below)
            _ => Some(rng.pick(&["Deserialize", " ", "Debug,  PartialEq ", "serde::Serialize", "A(B)", "+Debug", "+", "#[derive(Debug)]", "#[x]", "Debug, +Clone", "@file", "=Debug",
                                // realistic trait lists (round 7: a list containing Ord / PartialOrd switched the sort order)
                                "Debug, Clone, PartialEq, Eq, PartialOrd, Ord", "Ord", "PartialOrd, Deserialize", "Debug,Hash,Default,Copy", "Eq, Hash, Ord , Serialize"]).to_string()),
        };
        let sort = *rng.pick(&[None, Some(false), Some(true)]); // Some(true) = name
        // ---- the property itself, from the library called directly
        let mut opts = if parser == Some(true) { Opts::serde_xml_rs() } else { Opts::quick_xml() };
        if let Some(dv) = &derive {
            opts.derive = dv.clone();
        }
        opts.sort_by_name = sort == Some(true);
        let text_ok = std::str::from_utf8(&bytes).is_ok() && kind != "missing";
        let lib: Option<String> = if text_ok {
            let mut tab = ErrTab::default();
            match run_impl(&[bytes.clone()], &RCfg::default(), &mut tab) {
                ImplResult::Tree(_, e) => render(&e, &opts).ok().map(|r| format!("{}{}", HEADER, r)),
                _ => None,
            }
        } else {
            None
        };
        // ---- output
        let out_kind = *rng.pick(&["stdout", "stdout", "new-file", "existing-file", "existing-file-crlf", "uncreatable"]);
        let out_path = dir.join(format!("out{}.rs", i));
        let mut sentinel = format!("// SENTINEL {}\n{}", i, "// old content that is longer than any generated output\n".repeat(120));
        if out_kind == "existing-file-crlf" {
            // the file already holds the expected text, but with CRLF line endings (or only a last
            // CRLF): it must still be rewritten exactly
            if let Some(t) = &lib {
                sentinel = if rng.chance(1, 2) { t.replace('\n', "\r\n") } else { format!("{}\r\n", t.trim_end_matches('\n')) };
            }
        }
        let _ = std::fs::remove_file(&out_path);
        let out_arg: Option<String> = match out_kind {
            "stdout" => None,
            "new-file" => Some(out_path.to_string_lossy().to_string()),
            "existing-file" | "existing-file-crlf" => {
                std::fs::write(&out_path, &sentinel).unwrap();
                Some(out_path.to_string_lossy().to_string())
            }
            _ => Some(dir.join("no-such-dir").join("out.rs").to_string_lossy().to_string()),
        };
        let mut cmd = Command::new(&bin);
        if i % 4 == 3 {
            // files named like flag values in the working directory (round 7: `--derive @file` read the
            // list from a file of that name): a flag value may never be looked up as a path
            for n in ["file", "Debug", "name", "unsorted", "quick-xml-de", "serde-xml-rs", "Deserialize", "Ord"] {
                let _ = std::fs::write(dir.join(n), "Hash\n");
            }
            cmd.current_dir(&dir);
            hist.add("cwd:files-named-like-flag-values");
        }
        let mut argv: Vec<String> = vec![];
        if let Some(p) = parser {
            argv.push(if rng.chance(1, 2) { "--parser".into() } else { "-p".into() });
            argv.push(if p { "serde-xml-rs".into() } else { "quick-xml-de".into() });
        }
        if let Some(dv) = &derive {
            argv.push(if rng.chance(1, 2) { "--derive".into() } else { "-d".into() });
            argv.push(dv.clone());
        }
        if let Some(sn) = sort {
            argv.push(if rng.chance(1, 2) { "--sort".into() } else { "-s".into() });
            argv.push(if sn { "name".into() } else { "unsorted".into() });
        }
        argv.push(in_path.to_string_lossy().to_string());
        if let Some(o) = &out_arg {
            argv.push(o.clone());
        }
        cmd.args(&argv).env_remove("RUST_LOG");
        match i % 6 {
            1 | 4 => {
                for (k, name) in env_names.iter().enumerate() {
                    cmd.env(name, *rng.pick(&["name", "unsorted", "Debug", "", "1", "serde-xml-rs", "C", "tr_TR.UTF-8"]));
                    let _ = k;
                }
                hist.add("environment:variables-set");
            }
            2 => {
                cmd.env_clear();
                hist.add("environment:cleared");
            }
            _ => {}
        }
        let outp = match cmd.output() {
            Ok(o) => o,
            Err(e) => {
                fails.push(json::obj(vec![("check", json::s("spawn")), ("what", json::s(e.to_string()))]));
                continue;
            }
        };
        let exit = outp.status.code().unwrap_or(-1);
        let stdout = outp.stdout.clone();
        let stderr_nonempty = !outp.stderr.is_empty();
        // file effect
        let file_now: Option<Vec<u8>> = match out_kind {
            "new-file" | "existing-file" | "existing-file-crlf" => std::fs::read(&out_path).ok(),
            _ => None,
        };
        let file_obs: Option<Option<Vec<u8>>> = match (out_kind, &file_now) {
            ("new-file", None) => None,
            ("existing-file", Some(c)) | ("existing-file-crlf", Some(c)) if c == sentinel.as_bytes() => None,
            (_, Some(c)) => Some(if c.is_empty() { None } else { Some(c.clone()) }),
            _ => None,
        };
        let mut why: Vec<String> = vec![];
        match (&lib, out_kind) {
            (Some(text), "stdout") => {
                if exit != 0 {
                    why.push(format!("exit status {} on valid input", exit));
                }
                if stdout != format!("{}\n", text).into_bytes() {
                    why.push("stdout is not header + library rendering + newline".into());
                }
            }
            (Some(text), "new-file") | (Some(text), "existing-file") | (Some(text), "existing-file-crlf") => {
                if exit != 0 {
                    why.push(format!("exit status {} on valid input", exit));
                }
                if !stdout.is_empty() {
                    why.push("stdout not empty although an output file was named".into());
                }
                if file_now.as_deref() != Some(text.as_bytes()) {
                    why.push("output file is not exactly header + library rendering".into());
                }
            }
            (Some(_), _) => {
                if exit != 1 || !stderr_nonempty || !stdout.is_empty() {
                    why.push(format!("output cannot be created: exit {} stderr_nonempty {} stdout {} bytes", exit, stderr_nonempty, stdout.len()));
                }
            }
            (None, _) => {
                if exit != 1 {
                    why.push(format!("exit status {} although the input is at fault", exit));
                }
                if !stderr_nonempty {
                    why.push("no diagnostic on stderr".into());
                }
                if !stdout.is_empty() {
                    why.push("something printed on stdout although the input is at fault".into());
                }
                if file_obs.is_some() {
                    why.push("output file created or modified although the input is at fault".into());
                }
            }
        }
        let descr = json::obj(vec![
            ("argv", J::A(argv.iter().map(json::s).collect())),
            ("input_kind", json::s(kind)),
            ("input", json::bytes(&bytes)),
            ("output_kind", json::s(out_kind)),
            ("exit", J::N(exit as i64)),
            ("stdout", json::bytes(&stdout)),
            ("stderr", json::bytes(&outp.stderr)),
            ("output_file", match &file_now {
                Some(c) if c == sentinel.as_bytes() => json::s("(sentinel content intact)"),
                Some(c) => json::bytes(c),
                None => J::Null,
            }),
        ]);
        if !why.is_empty() {
            let mut f = descr.clone();
            if let J::O(m) = &mut f {
                m.insert("check".into(), json::s("cli-vs-library"));
                m.insert("what".into(), json::s(why.join("; ")));
                m.insert("documents".into(), J::A(vec![json::bytes(&bytes)]));
            }
            fails.push(f);
        }
        // ---- Coq case
        let it = &mut sh.intern;
        let args_t = format!(
            "(Build_args {} {} {} {})",
            match parser {
                None => "None",
                Some(false) => "(Some PQuickXmlDe)",
                Some(true) => "(Some PSerdeXmlRs)",
            },
            match &derive {
                None => "None".to_string(),
                Some(dv) => format!("(Some {})", it.get(dv)),
            },
            match sort {
                None => "None",
                Some(false) => "(Some Unsorted)",
                Some(true) => "(Some XmlName)",
            },
            out_arg.is_some()
        );
        let read_t = if text_ok {
            let mut tab = ErrTab::default();
            let evs = record(&bytes, &RCfg::default(), &mut tab);
            format!("(RText {})", coq_events(&evs, it))
        } else {
            "RFail".to_string()
        };
        let h = |b: &[u8]| -> String {
            if b.is_empty() {
                "None".into()
            } else {
                format!("(Some {}%uint63)", hash63(&String::from_utf8_lossy(b)))
            }
        };
        let obs_t = format!(
            "(Build_cli_obs {} {} {} {})",
            if exit < 0 { 255 } else { exit },
            h(&stdout),
            stderr_nonempty,
            match &file_obs {
                None => "None".to_string(),
                Some(None) => "(Some None)".to_string(),
                Some(Some(c)) => format!("(Some {})", h(c)),
            }
        );
        let term = format!("Build_clicase {} {} {} {}", args_t, read_t, out_kind != "uncreatable", obs_t);
        hist.add(&format!("input:{}", kind));
        hist.add(&format!("output:{}", out_kind));
        hist.add(&format!("exit:{}", exit));
        hist.add(&format!("parser:{:?}", parser));
        hist.add(&format!("sort:{:?}", sort));
        hist.add(&format!("derive:{}", derive.is_some()));
        if samples.len() < 4 && i % 41 == 3 {
            samples.push(descr.clone());
        }
        distinct.insert(format!("{:?}{:?}", argv[..argv.len().saturating_sub(2)].to_vec(), bytes));
        sh.push(term, descr);
        evaluations += 1;
        let _ = std::fs::remove_file(&in_path);
        let _ = std::fs::remove_file(&out_path);
    }
    // ---- an input path that looks like an option or a convention: a file literally called `-`
    {
        use std::io::Write as _;
        let ddir = dir.join("dash");
        let _ = std::fs::create_dir_all(&ddir);
        let doc = b"<a x=\"1\"><b>t</b></a>";
        let mut tab = ErrTab::default();
        let expected = match run_impl(&[doc.to_vec()], &RCfg::default(), &mut tab) {
            ImplResult::Tree(_, e) => render(&e, &Opts::quick_xml()).ok().map(|r| format!("{}{}\n", HEADER, r)),
            _ => None,
        };
        for present in [true, false] {
            let f = ddir.join("-");
            let _ = std::fs::remove_file(&f);
            if present {
                std::fs::write(&f, doc).unwrap();
            }
            let child = Command::new(&bin).arg("--").arg("-").current_dir(&ddir).stdin(std::process::Stdio::piped()).stdout(std::process::Stdio::piped()).stderr(std::process::Stdio::piped()).spawn();
            let Ok(mut child) = child else { continue };
            if let Some(mut si) = child.stdin.take() {
                let _ = si.write_all(if present { b"" } else { doc });
            }
            let Ok(o) = child.wait_with_output() else { continue };
            let exit = o.status.code().unwrap_or(-1);
            let ok = if present { exit == 0 && Some(String::from_utf8_lossy(&o.stdout).to_string()) == expected } else { exit == 1 && o.stdout.is_empty() && !o.stderr.is_empty() };
            hist.add(if present { "input:file-named-dash" } else { "input:missing-file-named-dash-with-xml-on-stdin" });
            if !ok {
                fails.push(json::obj(vec![
                    ("check", json::s("cli-dash-input")),
                    ("what", json::s(format!("input path `-` ({}): exit {}, stdout {} bytes, stderr {} bytes; expected {}", if present { "a file of that name exists, stdin empty" } else { "no such file, a document on stdin" }, exit, o.stdout.len(), o.stderr.len(), if present { "exit 0 and header + rendering of the FILE" } else { "exit 1, nothing on stdout" }))),
                    ("documents", J::A(vec![json::bytes(doc)])),
                ]));
            }
            let _ = std::fs::remove_file(&f);
        }
    }
    // ---- the file system around the program: directories, special files, the same file on both
    //      sides, a standard output that is an appended-to file, other encodings
    {
        use std::io::Write as _;
        let sdir = dir.join("special");
        let _ = std::fs::remove_dir_all(&sdir);
        let _ = std::fs::create_dir_all(&sdir);
        let docs: [&[u8]; 3] = [b"<a x=\"1\"><b>t</b><b k=\"2\"/></a>", "<Stra\u{df}e id=\"1\"><item/><item/>\u{416}</Stra\u{df}e>".as_bytes(), b"<?xml version=\"1.0\"?>\n<root><row id=\"1\"><v>1</v></row><row><v>2</v><w/></row></root>\n"];
        let rounds = if ctx.thorough { 12 } else { 3 };
        for round in 0..rounds {
            let doc = docs[round % docs.len()];
            let serde = rng.chance(1, 2);
            let by_name = rng.chance(1, 2);
            let mut opts = if serde { Opts::serde_xml_rs() } else { Opts::quick_xml() };
            opts.sort_by_name = by_name;
            let mut flags: Vec<String> = vec![];
            if serde {
                flags.extend(["--parser".to_string(), "serde-xml-rs".to_string()]);
            }
            if by_name {
                flags.extend(["--sort".to_string(), "name".to_string()]);
            }
            let mut tab = ErrTab::default();
            let expected = match run_impl(&[doc.to_vec()], &RCfg::default(), &mut tab) {
                ImplResult::Tree(_, e) => match render(&e, &opts) {
                    Ok(r) => format!("{}{}", HEADER, r),
                    Err(_) => continue,
                },
                _ => continue,
            };
            // (name, argv after the flags, bytes on stdin, stdout appended to a file holding this, expectation)
            enum Want {
                Stdout,              // exit 0, stdout = expected + "\n"
                File(std::path::PathBuf), // exit 0, stdout empty, the file = expected
                Fault,               // exit 1, stderr, nothing on stdout
                Silent,              // exit 0, nothing on stdout
                StdoutNoNewline,     // exit 0, stdout = expected (the file form: no trailing newline)
            }
            let mut scen: Vec<(&str, Vec<String>, Vec<u8>, Option<Vec<u8>>, Want)> = vec![];
            let f_in = sdir.join("model in \u{e9}.xml");
            std::fs::write(&f_in, doc).unwrap();
            let ps = |p: &std::path::Path| p.to_string_lossy().to_string();
            scen.push(("input:path-with-blank-and-non-ascii", vec![ps(&f_in)], vec![], None, Want::Stdout));
            // a path that contains list separators; the halves exist as other files
            let f_comma = sdir.join("export,v2;x:y.xml");
            std::fs::write(&f_comma, doc).unwrap();
            std::fs::write(sdir.join("export"), b"<other k=\"1\"/>").unwrap();
            std::fs::write(sdir.join("v2;x:y.xml"), b"<other2/>").unwrap();
            scen.push(("input:path-with-comma-semicolon-colon", vec![ps(&f_comma)], vec![], None, Want::Stdout));
            // the output goes to a device: everything is written, nothing to see, exit 0
            scen.push(("output:/dev/null", vec![ps(&f_in), "/dev/null".to_string()], vec![], None, Want::Silent));
            scen.push(("output:/dev/stdout", vec![ps(&f_in), "/dev/stdout".to_string()], vec![], None, Want::StdoutNoNewline));
            // a directory holding documents is not a document
            let d_in = sdir.join("indir");
            let _ = std::fs::create_dir_all(&d_in);
            std::fs::write(d_in.join("a.xml"), doc).unwrap();
            std::fs::write(d_in.join("b.xml"), doc).unwrap();
            scen.push(("input:directory", vec![ps(&d_in)], vec![], None, Want::Fault));
            // output path is a directory
            scen.push(("output:directory", vec![ps(&f_in), ps(&d_in)], vec![], None, Want::Fault));
            // a symbolic link to the document
            let l_in = sdir.join("link.xml");
            let _ = std::fs::remove_file(&l_in);
            if std::os::unix::fs::symlink(&f_in, &l_in).is_ok() {
                scen.push(("input:symlink", vec![ps(&l_in)], vec![], None, Want::Stdout));
            }
            // conversion in place: the output argument names the input file (three spellings)
            for (k, spelling) in ["same-string", "dot-segment", "symlink"].iter().enumerate() {
                let f = sdir.join(format!("inplace{}.xml", k));
                std::fs::write(&f, doc).unwrap();
                let other = match k {
                    0 => ps(&f),
                    1 => format!("{}/./inplace{}.xml", ps(&sdir), k),
                    _ => {
                        let l = sdir.join(format!("inplace{}.lnk", k));
                        let _ = std::fs::remove_file(&l);
                        let _ = std::os::unix::fs::symlink(&f, &l);
                        ps(&l)
                    }
                };
                let name: &'static str = match *spelling {
                    "same-string" => "output:is-the-input-file",
                    "dot-segment" => "output:is-the-input-file-other-spelling",
                    _ => "output:is-a-symlink-to-the-input-file",
                };
                scen.push((name, vec![ps(&f), other], vec![], None, Want::File(f.clone())));
            }
            // the document arrives through a pipe that reports size 0: /dev/stdin and a FIFO
            scen.push(("input:/dev/stdin-fed-by-a-pipe", vec!["/dev/stdin".to_string()], doc.to_vec(), None, Want::Stdout));
            // standard output is a file opened for appending that already holds something
            scen.push(("output:stdout-appended-to-a-non-empty-file", vec![ps(&f_in)], vec![], Some(b"// earlier output\n".to_vec()), Want::Stdout));
            scen.push(("output:stdout-appended-to-an-empty-file", vec![ps(&f_in)], vec![], Some(vec![]), Want::Stdout));
            // other encodings: UTF-16 with a byte-order mark, even and odd length; UTF-8 with a BOM is
            // plain UTF-8 text whose first character is U+FEFF
            for (k, le) in [true, false].iter().enumerate() {
                let mut b: Vec<u8> = if *le { vec![0xFF, 0xFE] } else { vec![0xFE, 0xFF] };
                for u in String::from_utf8_lossy(doc).encode_utf16() {
                    b.extend_from_slice(&if *le { u.to_le_bytes() } else { u.to_be_bytes() });
                }
                if round % 2 == 1 {
                    b.push(0x0A);
                }
                let f = sdir.join(format!("utf16-{}.xml", k));
                std::fs::write(&f, &b).unwrap();
                scen.push(("input:utf16-with-bom", vec![ps(&f)], vec![], None, Want::Fault));
            }
            let fifo = sdir.join("fifo.xml");
            let _ = std::fs::remove_file(&fifo);
            let have_fifo = Command::new("mkfifo").arg(&fifo).status().map(|s| s.success()).unwrap_or(false);
            if have_fifo {
                scen.push(("input:fifo", vec![ps(&fifo)], vec![], None, Want::Stdout));
            }
            for (name, tail, stdin_bytes, append_to, want) in scen {
                let mut argv = flags.clone();
                argv.extend(tail.clone());
                let mut cmd = Command::new(&bin);
                cmd.args(&argv).env_remove("RUST_LOG").stdin(std::process::Stdio::piped()).stderr(std::process::Stdio::piped());
                let app_path = sdir.join("appended.txt");
                if let Some(prior) = &append_to {
                    std::fs::write(&app_path, prior).unwrap();
                    let f = std::fs::OpenOptions::new().append(true).open(&app_path).unwrap();
                    cmd.stdout(f);
                } else {
                    cmd.stdout(std::process::Stdio::piped());
                }
                let writer = if name == "input:fifo" {
                    let fifo2 = fifo.clone();
                    let d2 = doc.to_vec();
                    Some(std::thread::spawn(move || {
                        // opening blocks until the program opens the FIFO for reading; give up if it never does
                        if let Ok(mut f) = std::fs::OpenOptions::new().write(true).open(&fifo2) {
                            let _ = f.write_all(&d2);
                        }
                    }))
                } else {
                    None
                };
                let Ok(mut child) = cmd.spawn() else { continue };
                if let Some(mut si) = child.stdin.take() {
                    let _ = si.write_all(&stdin_bytes);
                }
                // a program that never opens the FIFO would leave the writer blocked: open it ourselves
                // for reading once the program has finished
                let Ok(o) = child.wait_with_output() else { continue };
                if let Some(w) = writer {
                    let _ = { use std::os::unix::fs::OpenOptionsExt as _; std::fs::OpenOptions::new().read(true).custom_flags(0o4000).open(&fifo) };
                    let _ = w.join();
                }
                let exit = o.status.code().unwrap_or(-1);
                let stdout: Vec<u8> = if append_to.is_some() { std::fs::read(&app_path).unwrap_or_default() } else { o.stdout.clone() };
                let mut why: Vec<String> = vec![];
                match &want {
                    Want::Stdout => {
                        let mut exp = append_to.clone().unwrap_or_default();
                        exp.extend_from_slice(format!("{}\n", expected).as_bytes());
                        if exit != 0 {
                            why.push(format!("exit status {} on valid input", exit));
                        }
                        if stdout != exp {
                            why.push(format!("standard output is not {}header + library rendering + newline ({} bytes seen, {} expected)", if append_to.is_some() { "the earlier content followed by " } else { "" }, stdout.len(), exp.len()));
                        }
                    }
                    Want::File(f) => {
                        if exit != 0 {
                            why.push(format!("exit status {} on valid input", exit));
                        }
                        if !stdout.is_empty() {
                            why.push("stdout not empty although an output file was named".into());
                        }
                        if std::fs::read(f).ok().as_deref() != Some(expected.as_bytes()) {
                            why.push("the named output file is not exactly header + library rendering".into());
                        }
                    }
                    Want::Silent => {
                        if exit != 0 || !stdout.is_empty() {
                            why.push(format!("exit {} stdout {} bytes stderr {:?}; expected exit 0 and nothing on stdout", exit, stdout.len(), String::from_utf8_lossy(&o.stderr)));
                        }
                    }
                    Want::StdoutNoNewline => {
                        if exit != 0 || stdout != expected.as_bytes() {
                            why.push(format!("exit {} stdout {} bytes; expected exit 0 and exactly header + library rendering ({} bytes)", exit, stdout.len(), expected.len()));
                        }
                    }
                    Want::Fault => {
                        if exit != 1 || o.stderr.is_empty() || !stdout.is_empty() {
                            why.push(format!("exit {} stderr {} bytes stdout {} bytes; expected exit 1, a diagnostic, nothing on stdout", exit, o.stderr.len(), stdout.len()));
                        }
                    }
                }
                hist.add(name);
                if !why.is_empty() {
                    fails.push(json::obj(vec![
                        ("check", json::s("cli-file-system")),
                        ("scenario", json::s(name)),
                        ("argv", J::A(argv.iter().map(json::s).collect())),
                        ("what", json::s(format!("{}: {}", name, why.join("; ")))),
                        ("documents", J::A(vec![json::bytes(doc)])),
                    ]));
                }
            }
            let _ = std::fs::remove_dir_all(&sdir);
            let _ = std::fs::create_dir_all(&sdir);
        }
        let _ = std::fs::remove_dir_all(&sdir);
    }
    if samples.is_empty() {
        samples.push(json::s("(see shards)"));
    }
    ctx.shards.extend(sh.finish());
    ctx.add_chars();
    ctx.impl_failures.extend(fails);
    ctx.meta.push(("evaluations", J::N(evaluations)));
    ctx.meta.push(("distinct_nontrivial", J::N(distinct.len() as i64)));
    ctx.meta.push(("rule", json::s(format!("{} invocations of the binary built from /repo: input valid (random DOM) / malformed / non-UTF-8 / missing / without element x --parser omitted|quick-xml-de|serde-xml-rs x --derive omitted|empty|custom x --sort omitted|unsorted|name (long and short flags) x output to stdout | new file | existing file holding longer sentinel content | uncreatable path; compared with the library called directly with the corresponding Options and with the Coq model cli_run; distinct by (flags, input bytes)", n))));
    ctx.meta.push(("histogram", hist.json()));
    ctx.meta.push(("samples", J::A(samples)));
    let _ = Rng::new(0);
}
