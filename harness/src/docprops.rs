//! document-sequence properties: one generic runner (generators, option sets, Coq evals)
//! plus per-property metamorphic checks carried out on the implementation alone.
use crate::core::*;
use crate::docs::*;
use crate::emit::{Eval, Hist, Shards};
use crate::json::{self, J};
use crate::rng::Rng;
use crate::xml::*;
use crate::Ctx;

pub fn name_pools() -> Vec<(Vec<&'static str>, Vec<&'static str>)> {
    vec![
        (vec!["a", "b", "c"], vec!["x", "y", "z"]),
        (vec!["a", "b"], vec!["x"]),
        (vec!["item", "name", "id", "list"], vec!["id", "lang"]),
        (vec!["a-b", "a_b", "A.B", "ab", "aB"], vec!["a-b", "a_b", "a.b"]),
        (vec!["type", "Type", "self", "loop", "Self", "crate", "SELF"], vec!["type", "ref", "as", "Self"]),
        (vec!["Foo", "foo", "FOO", "fOO"], vec!["Foo", "foo", "FOO"]),
        (vec!["text", "text_content", "x_attr", "x", "text_1"], vec!["x", "text", "x_attr", "text_content"]),
        (vec!["p:a", "q:b", "c", "p:c"], vec!["xmlns:p", "p:id", "id2", "xmlns", "q:id2"]),
        (vec!["Классификатор", "Ид", "Straße", "İd"], vec!["Ид", "ß", "Ǆ"]),
        (vec!["Total", "Price", "TotalPrice", "Other"], vec!["a"]),
        (vec!["string", "String", "option", "vec", "Vec", "Option"], vec!["a", "b"]),
        (vec!["a", "a1", "a2", "A"], vec!["a", "a_1", "a_attr"]),
        (vec!["PqRs", "A", "Pq", "RsA", "PqRsA"], vec!["k"]),
        (vec!["e_mail", "iPhone", "x-ray", "tShirt", "a_b"], vec!["arrivée", "preisé", "ns:maß", "abcdeé", "e_mail"]),
        // numbered siblings of names that have to be numbered themselves
        (vec!["option", "option1", "Option", "Option1", "vec", "Vec1", "self", "Self1"], vec!["k", "k1", "k_1"]),
        (vec!["row", "value", "Value", "RowValue1", "row_value", "RowValue"], vec!["id", "id1", "id_attr"]),
        // a separator inside a name against the same string split over two nesting levels
        (vec!["system.web", "system", "web", "a.b", "a", "b"], vec!["k", "a.b"]),
        (vec!["a-b", "a", "b", "a_b", "a:b", "ab"], vec!["a-b", "a:b"]),
        // prefixes that merely begin with `xmlns`, and names with several colons
        (vec!["xmlnsx:a", "a", "xmlns_b:c", "p:q:r", "p:q"], vec!["xmlnsx:id", "xmlns_old:type", "xmlnsfoo", "xmlns", "xmlns:p", "p:q:id", "id"]),
        // an empty prefix: names that START with a colon (round 7: only a non-empty prefix was stripped)
        (vec![":a", "b", ":c:d", "e"], vec![":href", "k", ":x:y", "id"]),
        // well-known attribute names that tempt special treatment; digits followed by capitals
        (vec!["title", "X509Data", "Sha256Digest", "IPv4Address", "h1Title", "entry"], vec!["xsi:nil", "xml:lang", "xml:space", "xml:id", "nil", "xmlns:xsi", "lang"]),
        // a prefix that is the stem of a numbered / separator sibling; names that are trait names
        (vec!["opt:x", "opt1", "opt-z", "opt.y", "opt", "serialize", "clone", "debug", "Deserialize"], vec!["ns:b", "ns1:d", "ns-c", "ns", "value", "id"]),
        // letters outside the usual scripts whose case image is ASCII: keywords only after conversion
        (vec!["BREA\u{212A}", "brea\u{212A}", "\u{212A}ey", "item", "\u{2126}hm", "STRA\u{1E9E}E", "\u{212B}ngstrom"], vec!["\u{212A}ind", "brea\u{212A}", "as\u{17F}", "id"]),
        // characters no XML name may contain but the tokenizer lets through
        (vec!["a", "@b", "$text", "b", "text", "@"], vec!["b", "text", "$text"]),
        // names an implementation might use for itself: a wrapper / sentinel / placeholder element
        (vec!["root", "item", "Root", "document", "xml", "element", "root1", "_"], vec!["root", "name", "count", "standalone"]),
        (vec!["item", "root", "children", "attributes", "text", "position"], vec!["id", "root"]),
        // U+FFFD is an ordinary character of a name (and what a lossy decoder writes for bad bytes)
        (vec!["a\u{FFFD}", "a", "a\u{FFFD}b", "\u{FFFD}", "a\u{FFFD}\u{FFFD}"], vec!["k\u{FFFD}", "k", "\u{FFFD}"]),
        // letters beyond the Basic Multilingual Plane next to letters above U+E000 (the two orders
        // "by code point" and "by UTF-16 unit" differ exactly there)
        (vec!["\u{FB01}", "\u{10428}", "b", "\u{FB01}x", "\u{1D4B3}", "\u{FF41}"], vec!["\u{FB01}", "\u{10428}", "a", "\u{E000}", "\u{FF21}"]),
        // names whose PascalCase form starts with a digit; names that collide under the classic
        // 31-multiplier string hash (Aa / BB)
        (vec!["totals", "_2024", "_1", "1a", "item", "totals2024"], vec!["_1", "k", "_2024"]),
        (vec!["aa", "bB", "aaaa", "bBbB", "aabB", "item", "Aa", "BB"], vec!["Aa", "BB", "AaAa", "BBBB"]),
        // published collisions of 32-bit FNV-1a, and a pair with equal SipHash-1-3(0,0) (what
        // `DefaultHasher::new()` computes) that round 5 of the seeded changes found by search
        (vec!["costarring", "liquid", "declinate", "macallums", "altarage", "zinke"], vec!["k", "liquid"]),
        (vec!["n347907a08a5de696", "nf961fed5c12918dc", "item"], vec!["k", "n347907a08a5de696", "nf961fed5c12918dc"]),
        // an attribute and a child of one name next to a name that converts to <name>_attr without
        // being spelled that way
        (vec!["x", "xAttr", "x-attr", "X_ATTR", "x.attr", "foo", "fooAttr"], vec!["x", "foo", "xAttr"]),
        // numerics that are not ASCII digits (superscripts, fractions: alphanumeric, not identifier characters)
        (vec!["m\u{b2}", "m\u{b3}", "item\u{bd}b", "x\u{b9}", "m"], vec!["k\u{b2}", "k"]),
        // a container named as the plural of its items, the item also elsewhere
        (vec!["car", "locations", "location", "archive", "categories", "category", "boxes", "box"], vec!["id"]),
        // <parent>_<keyword> spelled out next to the keyword itself
        (vec!["order", "order_type", "type", "orderType", "order-type", "game", "game.match", "match"], vec!["type", "order_type", "orderType", "match"]),
        // attribute keys that differ only by white space the XML tokenizer does not strip (NBSP, VT, FF)
        (vec!["a", "b"], vec!["id", "id\u{a0}", "\u{a0}lang", "lang", "id\u{c}", "\u{b}id"]),
        // names that spell the numbered identifier the renderer hands out for a collision
        // (item / Item -> item_1; a sibling literally called item_1 / item_2 next to them)
        (vec!["item", "item_2", "Item", "item_1", "ITEM", "item_3"], vec!["text", "text_content", "text_content_2", "text_content_1", "Text"]),
    ]
}

/// a random name: a letter first (so "a letter before any digit"), then letters in both
/// cases, digits, separators, a namespace prefix now and then, non-ASCII letters of Sigma
pub fn rand_name(rng: &mut Rng) -> String {
    let first = ['a', 'b', 'e', 'i', 'x', 'A', 'B', 'T', 'Z', 'é', 'Ж', 'д', 'ß', 'İ', 'ǅ'];
    let rest = ['a', 'b', 'e', 'l', 'm', 'A', 'B', 'P', 'S', '1', '2', '0', '_', '-', '.', '_', 'é', 'Ж', 'д', 'ß', 'ö', 'Σ', 'ς'];
    let mut s = String::new();
    if rng.chance(1, 8) {
        s.push(*rng.pick(&['p', 'q', 'n']));
        if rng.chance(1, 2) {
            s.push(*rng.pick(&['s', '1']));
        }
        s.push(':');
    }
    s.push(*rng.pick(&first));
    let n = rng.below(9);
    for _ in 0..n {
        s.push(*rng.pick(&rest));
    }
    s
}
pub fn rand_pool(rng: &mut Rng) -> (Vec<String>, Vec<String>) {
    let nn = rng.range(2, 5);
    let na = rng.range(1, 4);
    let mut names: Vec<String> = vec![];
    while names.len() < nn {
        let mut x = rand_name(rng);
        // case / separator variants of an existing name, now and then
        if !names.is_empty() && rng.chance(1, 4) {
            let base = rng.pick(&names).clone();
            x = match rng.below(4) {
                0 => base.to_uppercase(),
                1 => base.to_lowercase(),
                2 => base.replace('_', "-"),
                _ => format!("{}1", base),
            };
        }
        if !names.contains(&x) && !x.contains(' ') {
            names.push(x);
        }
    }
    let mut attrs: Vec<String> = vec![];
    while attrs.len() < na {
        let x = if rng.chance(1, 4) { rng.pick(&names).clone() } else { rand_name(rng) };
        if !attrs.contains(&x) {
            attrs.push(x);
        }
    }
    (names, attrs)
}

pub type Extra = fn(&mut Ctx, &[Vec<Node>], &[Vec<u8>], &Built, &mut Rng, &mut Hist) -> Vec<J>;

pub struct DocProp {
    pub evals: Vec<Eval>,
    pub opts: fn(&mut Rng) -> Vec<Opts>,
    pub exhaustive: bool,
    pub n_rand: (usize, usize),
    /// restrict pools (indices into name_pools), empty = all
    pub pools: Vec<usize>,
    pub tweak: fn(&mut GenCfg, &mut Rng),
    pub extra: Option<Extra>,
    pub max_docs: usize,
    pub with_chars: bool,
    pub what: &'static str,
}

pub fn no_tweak(_: &mut GenCfg, _: &mut Rng) {}
const WIDE_NAMES: [&str; 20] = ["w0", "w1", "w2", "w3", "w4", "w5", "w6", "w7", "w8", "w9", "w10", "w11", "w12", "w13", "w14", "w15", "w16", "w17", "W1", "w-1"];
/// a chain d1/d2/.../d<depth> of distinct names with some content at the bottom (and, in `variant`
/// 1, one child less there): anything that stops descending at a fixed depth shows here
fn very_deep_doc(depth: usize, variant: usize) -> Vec<Node> {
    let mut inner: Vec<Node> = vec![Node::Elem { name: "leaf".into(), empty: false, attrs: vec!["k".into()], kids: vec![Node::Text] }];
    if variant == 0 {
        inner.push(Node::Elem { name: "item".into(), empty: true, attrs: vec![], kids: vec![] });
        inner.push(Node::Elem { name: "item".into(), empty: true, attrs: vec![], kids: vec![] });
    }
    let mut cur = Node::Elem { name: format!("d{}", depth), empty: false, attrs: vec!["id".into()], kids: inner };
    for i in (1..depth).rev() {
        cur = Node::Elem { name: format!("d{}", i), empty: false, attrs: vec![], kids: vec![cur] };
    }
    vec![cur]
}
/// one parent with `n` distinct child names followed by a child that occurs twice
fn many_names_doc(n: usize, twice: bool) -> Vec<Node> {
    let mut kids: Vec<Node> = (0..n).map(|i| Node::Elem { name: format!("c{}", i), empty: true, attrs: vec![], kids: vec![] }).collect();
    kids.push(Node::Elem { name: "entry".into(), empty: true, attrs: vec!["a".into()], kids: vec![] });
    if twice {
        kids.push(Node::Elem { name: "entry".into(), empty: true, attrs: vec![], kids: vec![] });
    }
    vec![Node::Elem { name: "record".into(), empty: false, attrs: vec![], kids }]
}
/// <list> with `n` occurrences of <item> (and one <other>)
fn repeat_doc(n: usize) -> Vec<Node> {
    let mut kids: Vec<Node> = (0..n).map(|_| Node::Elem { name: "item".into(), empty: true, attrs: vec![], kids: vec![] }).collect();
    kids.push(Node::Elem { name: "other".into(), empty: false, attrs: vec![], kids: vec![Node::Text] });
    vec![Node::Elem { name: "r".into(), empty: false, attrs: vec![], kids: vec![Node::Elem { name: "list".into(), empty: false, attrs: vec![], kids }] }]
}
/// the same name nested `depth` times (struct names qualified by ever longer ancestor chains)
fn same_name_chain(name: &str, depth: usize) -> Vec<Node> {
    let mut cur = Node::Elem { name: name.into(), empty: false, attrs: vec!["k".into()], kids: vec![Node::Elem { name: "x".into(), empty: true, attrs: vec!["y".into()], kids: vec![] }] };
    for _ in 1..depth {
        cur = Node::Elem { name: name.into(), empty: false, attrs: vec!["k".into()], kids: vec![cur] };
    }
    vec![cur]
}
const HUGE_NAMES: [&str; 12] = ["value", "Value", "value_1", "Value_1", "unit", "unit_attr", "VALUE", "value-1", "text", "text_content", "type", "Type"];
const LONG_NAMES: [&str; 9] = [
    "VehicleRentalAvailabilityRequestSummaryTotal",
    "VehicleRentalAvailabilityRequestSummaryRate",
    "VehicleRentalAvailabilityRequestSummaryFee",
    "an_element_name_of_more_than_one_hundred_and_twenty_eight_characters_which_differs_from_its_sibling_only_in_the_very_last_character_a",
    "an_element_name_of_more_than_one_hundred_and_twenty_eight_characters_which_differs_from_its_sibling_only_in_the_very_last_character_b",
    "transport_schedule_configuration_entry",
    "regional-transport-schedule-configuration",
    "TransportScheduleConfigurationEntryWithAnExceptionallyLongDescriptiveElementNameOfOverEightyCharacters",
    "entry",
];
const WIDE_ATTRS: [&str; 14] = ["a0", "a1", "a2", "a3", "a4", "a5", "a6", "a7", "a8", "a9", "a10", "a11", "a12", "a_1"];

/// corpus/<property>.txt: document sequences replayed first on every run.  Blocks are separated
/// by a line `---`; in a block, `# ...` is a note, `@signature X` names the known finding the
/// block is the witness of (known_findings.json), every other non-empty line is one document.
pub fn load_corpus(verif: &str, prop: &str) -> Vec<(Vec<String>, Option<String>, String)> {
    let text = std::fs::read_to_string(format!("{}/corpus/{}.txt", verif, prop)).unwrap_or_default();
    let mut out = vec![];
    for block in text.split("\n---") {
        let mut docs = vec![];
        let mut sig = None;
        let mut note = String::new();
        for line in block.lines() {
            let l = line.trim_end();
            if l.is_empty() {
                continue;
            }
            if let Some(n) = l.strip_prefix("# ") {
                note.push_str(n);
            } else if let Some(x) = l.strip_prefix("@signature ") {
                sig = Some(x.trim().to_string());
            } else {
                docs.push(l.to_string());
            }
        }
        if !docs.is_empty() {
            out.push((docs, sig, note));
        }
    }
    out
}

pub fn run_docprop(ctx: &mut Ctx, p: DocProp) {
    let per = if ctx.thorough { 1200 } else { 300 };
    let mut sh = Shards::new(&ctx.out, "docs", DOC_IMPORTS, "doccase", p.evals, "show_case", per);
    // the byte-level lexer model against the real reader on the documents of this check (all
    // serialisation styles: declarations, DOCTYPE, comments, CDATA, quoting, blanks)
    let mut lx = crate::lex::LexShards::new(&ctx.out, ctx.thorough);
    let lex_cap = if ctx.thorough { 6000 } else { 1500 };
    let mut hist = Hist::default();
    let mut samples: Vec<J> = vec![];
    let mut distinct = std::collections::HashSet::new();
    let mut evaluations = 0i64;
    let cfg = RCfg::default();
    let mut rng = ctx.rng.fork();
    let mut fails: Vec<J> = vec![];

    // ---- the corpus first: fixed byte documents (no DOM: the DOM-based oracles do not apply)
    let corpus = load_corpus(&ctx.verif, &ctx.prop);
    for (docs, sig, note) in &corpus {
        let bytes: Vec<Vec<u8>> = docs.iter().map(|d| d.clone().into_bytes()).collect();
        let opts = (p.opts)(&mut rng);
        let mut extra = vec![("kind", json::s("corpus")), ("note", json::s(note))];
        if let Some(sg) = sig {
            extra.push(("signature", json::s(sg)));
        }
        let b = build_case(None, &bytes, &cfg, &opts, &mut sh.intern, extra);
        hist.add("corpus");
        if ctx.prop == "C05" {
            // the repetition oracle needs only the bytes
            if let Some(f) = p.extra {
                fails.extend(f(ctx, &[], &bytes, &b, &mut rng, &mut hist));
            }
        }
        sh.push(b.term, b.descr);
        evaluations += 1;
    }
    // rendered texts sampled for the Coq re-parser (coq/Model/Reparse.v) against the Rust one
    let mut texts: Vec<String> = vec![];
    let text_budget = if ctx.thorough { 640 } else { 96 };
    let mut cases: Vec<(Vec<Vec<Node>>, &'static str)> = vec![];
    let mut exh_note = String::new();
    if p.exhaustive {
        let roots: Vec<Node> = small_trees(3, &["a", "b"], "x").into_iter().filter(|n| matches!(n, Node::Elem { name, .. } if name == "a")).collect();
        let single_stride = if ctx.thorough { 1 } else { 5 };
        for (i, r) in roots.iter().enumerate() {
            if i % single_stride == (ctx.seed as usize) % single_stride {
                cases.push((vec![vec![r.clone()]], "exhaustive-single"));
            }
        }
        let stride = if ctx.thorough { 17 } else { 97 };
        let off = (ctx.seed as usize) % stride;
        let sub: Vec<&Node> = roots.iter().enumerate().filter(|(i, _)| i % stride == off).map(|(_, r)| r).collect();
        for a in &sub {
            for b in &sub {
                cases.push((vec![vec![(*a).clone()], vec![(*b).clone()]], "strided-pairs"));
            }
        }
        exh_note = format!("all {} small roots (2 names, 1 attribute, depth<=3) as single documents with stride {}, a strided {}x{} of their pairs (offset by seed); ", roots.len(), single_stride, sub.len(), sub.len());
    }
    let pools = name_pools();
    let n_rand = if ctx.thorough { p.n_rand.1 } else { p.n_rand.0 };
    for i in 0..n_rand {
        let pi = if p.pools.is_empty() {
            if i % 4 == 0 {
                0
            } else {
                rng.below(pools.len())
            }
        } else {
            *rng.pick(&p.pools)
        };
        let rp = rand_pool(&mut rng);
        let rnames: Vec<&str> = rp.0.iter().map(|x| x.as_str()).collect();
        let rattrs: Vec<&str> = rp.1.iter().map(|x| x.as_str()).collect();
        let (names, attrs) = if i % 3 == 1 { (&rnames, &rattrs) } else { (&pools[pi].0, &pools[pi].1) };
        let mut g = GenCfg::basic(names, attrs);
        g.max_depth = rng.range(2, 5);
        g.max_kids = rng.range(1, 6);
        g.max_nodes = rng.range(4, 30);
        (p.tweak)(&mut g, &mut rng);
        let mut k = rng.range(1, p.max_docs);
        let mut kind: &'static str = "random-seq";
        // size classes beyond the usual bounds: anything keyed on a count, an index or a depth
        // (a position >= 10, a u8, a recursion limit) needs them to show
        match i % 40 {
            7 | 27 => {
                kind = "random-wide";
                g.names = WIDE_NAMES.iter().take(rng.range(11, WIDE_NAMES.len())).map(|x| x.to_string()).collect();
                g.attrs = WIDE_ATTRS.iter().take(rng.range(6, WIDE_ATTRS.len())).map(|x| x.to_string()).collect();
                g.max_kids = rng.range(10, 18);
                g.max_depth = 2;
                g.max_nodes = 60;
                g.p_empty = 100;
            }
            13 => {
                kind = "random-deep";
                g.max_depth = rng.range(7, 12);
                g.max_kids = 2;
                g.max_nodes = 60;
                g.p_empty = 30;
            }
            19 => {
                // very wide, with interfering collision groups; and very long names
                kind = "random-huge";
                let mut v: Vec<String> = HUGE_NAMES.iter().map(|x| x.to_string()).collect();
                for j in 0..rng.range(20, 34) {
                    v.push(format!("f{}", j));
                }
                g.names = v;
                g.attrs = ["unit", "unit_attr", "value", "Value", "k1", "k2", "k3", "k4", "k5", "k6", "k7", "k8"].iter().map(|x| x.to_string()).collect();
                g.max_kids = rng.range(34, 48);
                g.max_depth = 2;
                g.max_nodes = 70;
                g.p_empty = 400;
            }
            39 => {
                kind = "random-long-names";
                g.names = LONG_NAMES.iter().map(|x| x.to_string()).collect();
                g.attrs = ["an_attribute_name_that_is_also_rather_long_for_an_attribute_0123456789", "k", "RentalPaymentPreferenceGuaranteeType", "RentalPaymentPreferenceGuaranteeCode", "RentalPaymentPreferenceGuaranteeAmount"].iter().map(|x| x.to_string()).collect();
                g.max_depth = 4;
                g.max_kids = 3;
                g.max_nodes = 14;
                g.p_empty = 50;
            }
            33 => {
                kind = "random-many-docs";
                k = rng.range(5, 9);
                g.max_nodes = 10;
            }
            _ => {}
        }
        let root = match kind {
            "random-wide" => "w0",
            "random-huge" => "value",
            "random-long-names" => LONG_NAMES[4],
            _ => *rng.pick(&names[..names.len().min(2)]),
        };
        let mut docs: Vec<Vec<Node>> = (0..k).map(|_| gen_doc(&mut rng, &g, root)).collect();
        // chains hundreds of levels deep are expensive to render in the model: only the checks
        // whose property is about the inferred tree get them
        let deep_ok = matches!(ctx.prop.as_str(), "C01" | "C03" | "C06" | "C11");
        match i % 400 {
            51 | 251 if deep_ok => {
                kind = "fixed-very-deep";
                let d = *rng.pick(&[127usize, 128, 129, 130, 140]);
                docs = vec![very_deep_doc(d, 0), very_deep_doc(d, 1)];
            }
            151 if deep_ok => {
                kind = "fixed-very-deep";
                let d = *rng.pick(&[255usize, 256, 257, 258, 300]);
                docs = vec![very_deep_doc(d, 0), very_deep_doc(d, 1)];
            }
            51 | 151 | 251 => {}
            91 | 291 => {
                kind = "fixed-many-names";
                let n = *rng.pick(&[63usize, 64, 65, 70, 128, 129]);
                docs = vec![many_names_doc(n, true), many_names_doc(n, false)];
            }
            131 | 331 => {
                kind = "fixed-repeat";
                let n = *rng.pick(&[255usize, 256, 257, 512]);
                docs = match rng.below(3) {
                    0 => vec![repeat_doc(n), repeat_doc(n)],
                    1 => vec![repeat_doc(3), repeat_doc(n), repeat_doc(1)],
                    _ => vec![repeat_doc(n)],
                };
            }
            111 | 311 => {
                // twelve spellings of one name: one PascalCase form, one snake_case identifier
                kind = "fixed-many-spellings";
                let (a, b) = *rng.pick(&[("order", "line"), ("unit", "price"), ("a", "b")]);
                let up = |x: &str| x.to_uppercase();
                let cap = |x: &str| {
                    let mut c = x.chars();
                    c.next().map(|f| f.to_uppercase().collect::<String>() + c.as_str()).unwrap_or_default()
                };
                let mut sp: Vec<String> = vec![];
                for sep in ["_", "-", "."] {
                    sp.push(format!("{}{}{}", a, sep, b));
                    sp.push(format!("{}{}{}", cap(a), sep, cap(b)));
                    sp.push(format!("{}{}{}", up(a), sep, up(b)));
                }
                sp.push(format!("{}{}", a, cap(b)));
                sp.push(format!("{}{}", cap(a), cap(b)));
                sp.push(format!("{}_{}", a, cap(b)));
                sp.push(format!("{}__{}", a, b));
                let mut seen = std::collections::HashSet::new();
                sp.retain(|x| seen.insert(x.clone()));
                let as_children = rng.chance(1, 2);
                let mk = |names: &[String], with_attr: bool| -> Vec<Node> {
                    let kids: Vec<Node> = names.iter().map(|n| Node::Elem { name: n.clone(), empty: true, attrs: if with_attr { vec!["k".to_string()] } else { vec![] }, kids: vec![] }).collect();
                    vec![Node::Elem { name: "orders".to_string(), empty: false, attrs: if as_children { vec![] } else { names.to_vec() }, kids: if as_children { kids } else { vec![] } }]
                };
                docs = vec![mk(&sp, rng.chance(1, 2)), mk(&sp[..rng.range(1, sp.len())], true)];
            }
            71 | 271 => {
                // an element with two dozen attributes; later occurrences bring a new one / lack one
                kind = "fixed-many-attributes";
                let n = *rng.pick(&[19usize, 20, 21, 24, 33]);
                let attrs: Vec<String> = (0..n).map(|i| format!("a{}", i)).collect();
                let row = |a: Vec<String>| Node::Elem { name: "row".to_string(), empty: true, attrs: a, kids: vec![] };
                let mut more = attrs.clone();
                more.push("note".to_string());
                let mut fewer = attrs.clone();
                fewer.remove(n / 2);
                let wrap = |rows: Vec<Node>| vec![Node::Elem { name: "table".to_string(), empty: false, attrs: vec![], kids: rows }];
                docs = match rng.below(3) {
                    0 => vec![wrap(vec![row(attrs.clone()), row(more)]), wrap(vec![row(fewer)])],
                    1 => vec![wrap(vec![row(attrs.clone())]), wrap(vec![row(more)])],
                    _ => vec![wrap(vec![row(more), row(attrs.clone()), row(fewer)])],
                };
            }
            171 | 371 => {
                kind = "fixed-same-name-chain";
                let d = rng.range(18, 26);
                docs = vec![same_name_chain(*rng.pick(&["section", "a", "ListItem"]), d)];
            }
            _ => {}
        }
        cases.push((docs, kind));
    }
    let mut case_no = 0usize;
    for (docs, kind) in cases {
        case_no += 1;
        // a tenth of the cases of the tree-level checks are read with trim_text: the serialisation then
        // writes no blank text (the reader would drop it, the DOM would not)
        let trim = matches!(ctx.prop.as_str(), "C03" | "C01" | "C06") && case_no % 10 == 7 && kind != "fixed-very-deep";
        let cfg = if trim { RCfg { trim_text: true, ..cfg } } else { cfg };
        let docs: Vec<Vec<Node>> = if trim { docs.into_iter().map(|d| d.into_iter().filter(|n| !matches!(n, Node::Text)).collect()).collect() } else { docs };
        // another tenth with trim_text_end alone: nothing disappears from the stream, but blank
        // character data arrives as an empty Text event (except at the very end of the input, where
        // the reader reports Eof instead: the documents end with their last markup)
        let trim_end = !trim && case_no % 10 == 3 && kind != "fixed-very-deep";
        let cfg = if trim_end { RCfg { trim_end: true, ..cfg } } else { cfg };
        let docs: Vec<Vec<Node>> = if trim_end {
            docs.into_iter()
                .map(|mut d| {
                    while matches!(d.last(), Some(Node::Text)) {
                        d.pop();
                    }
                    d
                })
                .collect()
        } else {
            docs
        };
        let bytes = if trim { serialise_no_blank(&docs, &mut rng) } else { serialise(&docs, &mut rng) };
        if trim {
            hist.add("reader:trim_text");
        }
        if trim_end {
            hist.add("reader:trim_text_end-alone");
        }
        let mut opts = (p.opts)(&mut rng);
        if kind == "fixed-very-deep" {
            opts.truncate(1);
        }
        if lx.sh.total < lex_cap {
            for d in &bytes {
                lx.add(d, kind);
            }
        }
        let b = build_case(Some(&docs), &bytes, &cfg, &opts, &mut sh.intern, vec![("kind", json::s(kind))]);
        hist.add(kind);
        hist.add(&format!("docs={}", docs.len()));
        hist.add(&format!("result={}", b.result.class()));
        let nodes: usize = docs.iter().flat_map(|d| d.iter()).map(count_nodes).sum();
        hist.add(&format!("nodes~{}", ((nodes / 10) * 10).min(100)));
        if samples.len() < 4 && nodes >= 6 && docs.len() >= 2 {
            samples.push(b.descr.clone());
        }
        if nodes >= 3 {
            distinct.insert(format!("{:?}", docs));
        }
        for (_, r) in &b.renders {
            if let Ok(t) = r {
                if texts.len() < text_budget && (evaluations as usize) % 7 == 3 && t.len() < 6000 {
                    texts.push(t.clone());
                }
            }
        }
        for (o, r) in &b.renders {
            if let Err(m) = r {
                fails.push(json::obj(vec![("check", json::s("render-panic")), ("documents", J::A(bytes.iter().map(|x| json::bytes(x)).collect())), ("options", o.json()), ("what", json::s(m))]));
            }
        }
        if let Some(f) = p.extra {
            fails.extend(f(ctx, &docs, &bytes, &b, &mut rng, &mut hist));
        }
        sh.push(b.term, b.descr);
        evaluations += 1;
    }
    let files = sh.finish();
    ctx.shards.extend(files);
    for (k, v) in &lx.kinds {
        hist.addn(k, *v);
    }
    ctx.meta.push(("lexer_cases", J::N(lx.sh.total as i64)));
    ctx.shards.extend(lx.sh.finish());
    if matches!(ctx.prop.as_str(), "C03" | "C06" | "C01" | "C04") {
        evaluations += crate::ops::run_mixed(ctx, &mut hist);
    }
    {
        let imports = "From XSG.Model Require Import Strings Necessity Element Render Reparse.\nFrom XSG.Corr Require Import Common Oracles ReparseCorr.\nFrom Coq Require Import String.";
        let evals = vec![ev("reparse", "ev_reparse", "corr")];
        let mut sh2 = Shards::new(&ctx.out, "reparse", imports, "reparsecase", evals, "show_reparse", 6);
        // damaged variants too: both parsers must refuse (or accept) the same texts
        let mut all: Vec<String> = vec![];
        for t in &texts {
            all.push(t.clone());
            if all.len() % 5 == 0 {
                all.push(t.replacen("pub struct ", "pub  struct ", 1));
                all.push(t.replacen(": ", ":", 1));
            }
        }
        for t in &all {
            let rust = match crate::outp::parse_output(t) {
                Ok(ps) => format!("(Some {})", crate::outp::coq_pstructs(&ps, &mut sh2.intern)),
                Err(_) => "None".to_string(),
            };
            sh2.push(format!("Build_reparsecase {} {}", crate::emit::coq_str(t), rust), json::obj(vec![("kind", json::s("reparse")), ("text", json::s(t))]));
        }
        ctx.meta.push(("x_texts_reparsed_in_coq", J::N(all.len() as i64)));
        ctx.shards.extend(sh2.finish());
    }
    if p.with_chars {
        ctx.add_chars();
    }
    ctx.impl_failures.extend(fails);
    ctx.meta.push(("evaluations", J::N(evaluations)));
    ctx.meta.push(("distinct_nontrivial", J::N(distinct.len() as i64)));
    ctx.meta.push(("rule", json::s(format!(
        "documents as DOM trees serialised with random incidental detail: {}{} random sequences of 1-{} documents with a common root (37 fixed name pools and, for a third of the cases, a pool of random names incl. keywords, case/separator variants, prefixed, non-ASCII, concatenation traps; depth<=5, fan-out<=6); {}; non-trivial = at least 3 nodes, distinct by DOM sequence",
        exh_note, n_rand, p.max_docs, p.what))));
    ctx.meta.push(("histogram", hist.json()));
    ctx.meta.push(("samples", J::A(samples)));
}

fn ev(label: &'static str, func: &str, role: &'static str) -> Eval {
    Eval { label, func: func.to_string(), role }
}
fn corr_core() -> Vec<Eval> {
    vec![ev("events", "ev_events", "corr"), ev("tree", "ev_tree", "corr"), ev("dom", "ev_dom", "corr"), ev("bytes", "ev_bytes", "corr")]
}
fn opts_qx_one(rng: &mut Rng) -> Vec<Opts> {
    vec![Opts::quick_xml().sorted(rng.chance(1, 2))]
}
// (Unsorted, XmlName) pairs: the quick-xml preset, or in a third of the cases a random text identifier
// and attribute prefix (round 7: the text field moved behind the children for one particular identifier)
fn opts_pair_custom(rng: &mut Rng) -> Vec<Opts> {
    if rng.chance(1, 3) {
        let (t, a) = (rand_ident(rng), rand_ident(rng));
        let o = Opts { text_identifier: t, attribute_prefix: a, derive: "Serialize, Deserialize".to_string(), sort_by_name: false };
        vec![o.clone(), o.sorted(true)]
    } else {
        vec![Opts::quick_xml(), Opts::quick_xml().sorted(true)]
    }
}
fn opts_qx_both(_: &mut Rng) -> Vec<Opts> {
    vec![Opts::quick_xml(), Opts::quick_xml().sorted(true)]
}
fn opts_presets(_: &mut Rng) -> Vec<Opts> {
    vec![Opts::quick_xml(), Opts::quick_xml().sorted(true), Opts::serde_xml_rs(), Opts::serde_xml_rs().sorted(true)]
}
fn rand_string(rng: &mut Rng, alphabet: &[char], max: usize) -> String {
    let n = rng.below(max + 1);
    (0..n).map(|_| *rng.pick(alphabet)).collect()
}
fn rand_ident(rng: &mut Rng) -> String {
    if rng.chance(1, 2) {
        // incl. strings that are themselves the beginning of attribute names of the pools
        rng.pick(&["$text", "$value", "text", "#text", "body", "", "@", "attr_", "_", "x-", " ", "$", "Text", "text_content", "a", "x", "k", "id", "i", "xml", "xmlns", "p:", "a-",
                   // identifiers that equal (prefix +) the name of an attribute of the pools
                   "value", "@value", "@id", "@x", "lang", "@lang", "@k", "@a", "y", "@y", "z", "{}", "%s",
                   // a prefix that, put before the local name, spells the field identifier (p:id -> p_id)
                   "p_", "q_", "ns_", "ns1_", "xsi_", "xml_", "xmlns_", "a_", "x_", "e_",
                   // multi-byte prefixes (anything that counts characters where bytes are meant)
                   "\u{f8}_", "\u{a7}", "\u{2192}@", "\u{e9}", "\u{416}\u{416}_", "\u{1F600}"]).to_string()
    } else {
        rand_string(rng, &['$', '@', '#', 't', 'e', 'x', '_', '-', ' ', ':', 'T', '1', 'я'], 6)
    }
}
fn rand_derive(rng: &mut Rng) -> String {
    if rng.chance(1, 2) {
        rng.pick(&[
            "Serialize, Deserialize", "", "Debug, Clone", "Debug", "serde::Deserialize, PartialEq", "A(B), C", " ", " Debug", "Debug ", "\tClone", "  ", "Debug,Clone , ",
            // long lists (anything that wraps, truncates or reformats above a width)
            "Debug, {}", "{{}}", "{0}, {}", "%s, %d", "Debug, {name}", "\\n", "Debug)] #[cfg(", "serialize, Clone, debug",
            // strings that look like something else: a whole attribute, an "extend the default" marker
            "#[derive(Debug)]", "#[x]", "#[cfg(test)]", "+Debug", "+", "derive(Debug)", "[Debug]",
            "Debug, Clone, PartialEq, Eq, Hash, PartialOrd, Ord, Default, serde::Serialize, serde::Deserialize",
            "Debug, Clone, PartialEq, Eq, Hash, PartialOrd, Ord, Default, serde::Serialize, serde::Deserialize, schemars::JsonSchema, derive_more::Display, derive_more::From, derive_more::Into, derive_builder::Builder, validator::Validate, utoipa::ToSchema, ts_rs::TS, strum::EnumString, strum::Display,,  Copy",
        ]).to_string()
    } else {
        rand_string(rng, &['D', 'e', 'b', 'u', 'g', ',', ' ', ' ', '(', ')', ':', '_', '\t', 'я', '<', '>', '#', '[', ']'], 12)
    }
}
fn opts_variants(rng: &mut Rng) -> Vec<Opts> {
    let mut v = vec![];
    let (t, a, d) = (rand_ident(rng), rand_ident(rng), rand_derive(rng));
    for sorted in [false, true] {
        v.push(Opts::quick_xml().sorted(sorted));
        v.push(Opts::serde_xml_rs().sorted(sorted));
        v.push(Opts { text_identifier: t.clone(), attribute_prefix: a.clone(), derive: d.clone(), sort_by_name: sorted });
    }
    v
}

// ------------------------------------------------------------------ C03 / C01 / C04 / C09 / C10 / C14
pub fn c03(ctx: &mut Ctx) {
    let mut evals = corr_core();
    evals.extend(vec![ev("exact", "or_exact", "oracle"), ev("reflects", "or_reflects", "oracle"), ev("hyp", "in_hyp_docs", "hyp")]);
    run_docprop(ctx, DocProp { evals, opts: opts_qx_one, exhaustive: true, n_rand: (2000, 16000), pools: vec![], tweak: no_tweak, extra: None, max_docs: 4, with_chars: true, what: "rendered with the quick-xml preset, sort option chosen at random" });
}
pub fn c01(ctx: &mut Ctx) {
    let mut evals = corr_core();
    evals.extend(vec![ev("admits", "or_admits", "oracle"), ev("hyp", "in_hyp_admits", "hyp")]);
    run_docprop(ctx, DocProp { evals, opts: opts_qx_both, exhaustive: true, n_rand: (2000, 16000), pools: vec![], tweak: no_tweak, extra: None, max_docs: 4, with_chars: true, what: "rendered with the quick-xml preset under both sort options; each source document is checked against the parsed rendering" });
}
pub fn c04(ctx: &mut Ctx) {
    let mut evals = vec![ev("bytes", "ev_bytes", "corr"), ev("wf", "or_wf", "oracle"), ev("reflects", "or_reflects", "oracle"), ev("hyp", "in_hyp_names", "hyp")];
    // renderer-only property: the parser's internal state is not compared here (a harmless rewrite
    // of the parser must not break this check); `bytes` renders the implementation's own tree
    run_docprop(ctx, DocProp { evals, opts: opts_presets, exhaustive: false, n_rand: (2500, 16000), pools: vec![3, 4, 5, 6, 7, 8, 9, 10, 11, 12, 14, 15, 16, 17, 18, 19, 20, 21, 23, 24, 28, 29, 30, 31, 31, 33, 34, 34], tweak: no_tweak, extra: None, max_docs: 3, with_chars: true, what: "adversarial name pools only; both presets x both sort options" });
}
/// implementation-only: one element with `n` distinct children (far beyond what the model can
/// evaluate per run); the fields and the struct definitions must follow the document (unsorted)
/// resp. the XML name (sorted)
fn giant_order_check(ctx: &mut Ctx, n: usize) {
    let t0 = std::time::Instant::now();
    let mut doc = String::from("<r>");
    for i in 0..n {
        // names whose document order differs from their name order
        doc.push_str(&format!("<c{} k=\"1\"/>", (i * 7919) % n));
    }
    doc.push_str("</r>");
    let mut tab = ErrTab::default();
    let res = run_impl_guarded(&[doc.clone().into_bytes()], &RCfg::default(), &mut tab, 120);
    let ImplResult::Tree(_, e) = &res else {
        ctx.impl_failures.push(json::obj(vec![("check", json::s("giant-order")), ("what", json::s(format!("a document with {} distinct children is not parsed: {}", n, res.class())))]));
        return;
    };
    for sorted in [false, true] {
        let out = match render(e, &Opts::quick_xml().sorted(sorted)) {
            Ok(o) => o,
            Err(m) => {
                ctx.impl_failures.push(json::obj(vec![("check", json::s("giant-order")), ("what", json::s(format!("rendering {} children panics: {}", n, m)))]));
                return;
            }
        };
        let fields: Vec<String> = out.lines().skip_while(|l| !l.starts_with("pub struct R ")).skip(1).take_while(|l| !l.starts_with('}')).filter(|l| l.trim_start().starts_with("pub ")).map(|l| l.trim_start()[4..].split(':').next().unwrap_or("").to_string()).collect();
        let structs: Vec<String> = out.lines().filter(|l| l.starts_with("pub struct ")).skip(1).map(|l| l[11..].split(' ').next().unwrap_or("").to_lowercase()).collect();
        let mut expected: Vec<String> = (0..n).map(|i| format!("c{}", (i * 7919) % n)).collect();
        if sorted {
            expected.sort();
        }
        if fields != expected || structs != expected {
            let at = fields.iter().zip(expected.iter()).position(|(a, b)| a != b).unwrap_or(fields.len().min(expected.len()));
            ctx.impl_failures.push(json::obj(vec![
                ("check", json::s("giant-order")),
                ("what", json::s(format!("{} distinct children <c(i*7919 mod n)/> of one element, sort={}: fields / structs are not in {} order; first difference at index {}: got {:?}, expected {:?}", n, sorted, if sorted { "XML-name" } else { "document" }, at, fields.get(at), expected.get(at)))),
                ("documents", J::A(vec![json::s(format!("<r>" ) + &format!("<c{} k=\"1\"/>...({} children, c(i*7919 mod {}))</r>", 0, n, n))])),
            ]));
        }
    }
    ctx.meta.push(("x_giant_order_children", J::N(n as i64)));
    ctx.meta.push(("x_giant_order_seconds", J::F((t0.elapsed().as_secs_f64() * 10.0).round() / 10.0)));
}
/// implementation-only: a chain of `depth` distinct elements with a later sibling of the first
/// link: the struct definitions must follow the pre-order walk however deep the chain is
fn deep_order_check(ctx: &mut Ctx, depth: usize) {
    let mut doc = String::from("<r>");
    for i in 0..depth {
        doc.push_str(&format!("<d{} k=\"1\">", i));
    }
    for i in (0..depth).rev() {
        if i == depth / 2 {
            doc.push_str("<m k=\"1\"/>");
        }
        doc.push_str(&format!("</d{}>", i));
    }
    doc.push_str("<z k=\"1\"/></r>");
    let mut tab = ErrTab::default();
    let res = run_impl_guarded(&[doc.clone().into_bytes()], &RCfg::default(), &mut tab, 120);
    let ImplResult::Tree(_, e) = &res else {
        ctx.impl_failures.push(json::obj(vec![("check", json::s("deep-order")), ("what", json::s(format!("a chain of {} nested elements is not parsed: {}", depth, res.class())))]));
        return;
    };
    for sorted in [false, true] {
        let out = match render(e, &Opts::quick_xml().sorted(sorted)) {
            Ok(o) => o,
            Err(m) => {
                ctx.impl_failures.push(json::obj(vec![("check", json::s("deep-order")), ("what", json::s(format!("rendering a chain of {} nested elements panics: {}", depth, m)))]));
                return;
            }
        };
        let structs: Vec<String> = out.lines().filter(|l| l.starts_with("pub struct ")).map(|l| l[11..].split(' ').next().unwrap_or("").to_lowercase()).collect();
        let mut expected: Vec<String> = vec!["r".to_string()];
        expected.extend((0..depth).map(|i| format!("d{}", i)));
        // `m` is the second child of d(depth/2): after the whole rest of the chain; then `z`
        expected.push("m".to_string());
        expected.push("z".to_string());
        if structs != expected {
            let at = structs.iter().zip(expected.iter()).position(|(a, b)| a != b).unwrap_or(structs.len().min(expected.len()));
            ctx.impl_failures.push(json::obj(vec![
                ("check", json::s("deep-order")),
                ("what", json::s(format!("<r><d0><d1>...<d{}/>... <m/> ...</d0><z/></r> (chain of {} elements), sort={}: struct definitions are not in pre-order; first difference at index {}: got {:?}, expected {:?}", depth - 1, depth, sorted, at, structs.get(at), expected.get(at)))),
                ("documents", J::A(vec![json::s(format!("<r><d0 k=\"1\"><d1 k=\"1\">...({} levels; <m k=\"1\"/> after d{})...</d0><z k=\"1\"/></r>", depth, depth / 2 + 1))])),
            ]));
        }
    }
    ctx.meta.push(("x_deep_order_levels", J::N(depth as i64)));
}
/// implementation-only: a root with two children that each hold thousands of struct-producing
/// elements: rendered several times, the renderings must coincide and list the structs in pre-order
/// (anything that renders large subtrees apart and joins the parts must join them in order)
pub fn two_big_subtrees_check(ctx: &mut Ctx, n: usize) {
    let mut doc = String::from("<schema><catalog>");
    for i in 0..n {
        doc.push_str(&format!("<c{} k=\"1\"><p{} k=\"1\"/></c{}>", i, i, i));
    }
    doc.push_str("</catalog><index>");
    for i in 0..n / 2 {
        doc.push_str(&format!("<i{} k=\"1\"><q{} k=\"1\"/></i{}>", i, i, i));
    }
    doc.push_str("</index><tail k=\"1\"/></schema>");
    let mut tab = ErrTab::default();
    let res = run_impl_guarded(&[doc.into_bytes()], &RCfg::default(), &mut tab, 300);
    let ImplResult::Tree(_, e) = &res else {
        ctx.impl_failures.push(json::obj(vec![("check", json::s("two-big-subtrees")), ("what", json::s(format!("a document with two subtrees of {} / {} elements is not parsed: {}", 2 * n, n, res.class())))]));
        return;
    };
    let mut expected: Vec<String> = vec!["schema".into(), "catalog".into()];
    for i in 0..n {
        expected.push(format!("c{}", i));
        expected.push(format!("p{}", i));
    }
    expected.push("index".into());
    for i in 0..n / 2 {
        expected.push(format!("i{}", i));
        expected.push(format!("q{}", i));
    }
    expected.push("tail".into());
    let mut first: Option<String> = None;
    for round in 0..3 {
        let out = match render(e, &Opts::quick_xml()) {
            Ok(o) => o,
            Err(m) => {
                ctx.impl_failures.push(json::obj(vec![("check", json::s("two-big-subtrees")), ("what", json::s(format!("rendering panics: {}", m)))]));
                return;
            }
        };
        let structs: Vec<String> = out.lines().filter(|l| l.starts_with("pub struct ")).map(|l| l[11..].split(' ').next().unwrap_or("").to_lowercase()).collect();
        if structs != expected {
            let at = structs.iter().zip(expected.iter()).position(|(a, b)| a != b).unwrap_or(structs.len().min(expected.len()));
            ctx.impl_failures.push(json::obj(vec![
                ("check", json::s("two-big-subtrees")),
                ("what", json::s(format!("<schema><catalog>{} x <cI><pI/></cI></catalog><index>{} x <iI><qI/></iI></index><tail/></schema>: struct definitions are not in pre-order (rendering {}); first difference at index {}: got {:?}, expected {:?}", n, n / 2, round, at, structs.get(at), expected.get(at)))),
                ("documents", J::A(vec![json::s(format!("<schema><catalog>({} children with one child each)</catalog><index>({} such)</index><tail k=\"1\"/></schema>", n, n / 2))])),
            ]));
            return;
        }
        match &first {
            None => first = Some(out),
            Some(f) if *f != out => {
                ctx.impl_failures.push(json::obj(vec![("check", json::s("two-big-subtrees")), ("what", json::s(format!("rendering {} of the same tree differs from the first", round)))]));
                return;
            }
            _ => {}
        }
    }
    ctx.meta.push(("x_two_big_subtrees_structs", J::N(expected.len() as i64)));
}
pub fn c09(ctx: &mut Ctx) {
    giant_order_check(ctx, if ctx.thorough { 20011 } else { 10007 });
    two_big_subtrees_check(ctx, if ctx.thorough { 9000 } else { 4500 });
    deep_order_check(ctx, if ctx.thorough { 3000 } else { 1500 });
    let mut evals = corr_core();
    evals.extend(vec![ev("exact", "or_exact", "oracle"), ev("reflects", "or_reflects", "oracle"), ev("only_order", "or_only_order", "oracle"), ev("hyp", "in_hyp_docs", "hyp")]);
    fn tweak(g: &mut GenCfg, rng: &mut Rng) {
        // several new attributes / children in later occurrences: many attributes, wide fan-out
        g.max_kids = rng.range(3, 7);
        if g.attrs.len() < 5 {
            for k in ["k1", "k2", "k3"] {
                if !g.attrs.iter().any(|a| a == k) {
                    g.attrs.push(k.to_string());
                }
            }
        }
    }
    run_docprop(ctx, DocProp { evals, opts: opts_pair_custom, exhaustive: true, n_rand: (2000, 16000), pools: vec![], tweak, extra: None, max_docs: 4, with_chars: true, what: "renderings in pairs (Unsorted, XmlName), a third of them with a random text identifier and attribute prefix; generator widened to many attributes/children appearing late" });
}
pub fn c10(ctx: &mut Ctx) {
    let evals = vec![ev("bytes", "ev_bytes", "corr"), ev("reflects", "or_reflects", "oracle"), ev("derive", "or_derive", "oracle"), ev("orthogonal", "or_orthogonal", "oracle")];
    run_docprop(ctx, DocProp { evals, opts: opts_variants, exhaustive: false, n_rand: (1500, 12000), pools: vec![], tweak: no_tweak, extra: None, max_docs: 3, with_chars: true, what: "six option values per tree: both presets and a random (text identifier, attribute prefix, derive) under both sort options" });
}
pub fn c14(ctx: &mut Ctx) {
    let mut evals = vec![ev("bytes", "ev_bytes", "corr"), ev("names", "or_names", "oracle"), ev("hyp", "in_hyp_names", "hyp")];
    evals.push(ev("reflects", "or_reflects", "oracle"));
    fn tweak(g: &mut GenCfg, rng: &mut Rng) {
        // the same name at many depths and under itself: few names, deep trees
        g.max_depth = rng.range(3, 6);
        g.p_empty = 120;
        if rng.chance(1, 2) && g.names.len() > 2 {
            g.names.truncate(2);
        }
    }
    run_docprop(ctx, DocProp { evals, opts: opts_qx_both, exhaustive: false, n_rand: (2500, 16000), pools: vec![], tweak, extra: None, max_docs: 3, with_chars: true, what: "few names and deep trees so the same name recurs under different parents, at different depths and under itself" });
}

// ------------------------------------------------------------------ canonical schema (C06)
/// schema of a tree: fields, optionality, multiplicity, text flags, nesting — no order,
/// no counts, no positions
pub fn canon(t: &Tree) -> String {
    let mut at: Vec<String> = t.attrs.iter().map(|(m, a)| format!("{}{}", if *m { "!" } else { "?" }, a)).collect();
    at.sort();
    let mut ch: Vec<String> = t.children.iter().map(|(m, c)| format!("{}{}{}", if *m { "!" } else { "?" }, if c.standalone { "1" } else { "*" }, canon(c))).collect();
    ch.sort();
    format!("<{} text={} [{}] {{{}}}>", t.name, t.text, at.join(","), ch.join(","))
}
/// `b` never drops a field of `a`, never turns Option into required or Vec into single
pub fn monotone(a: &Tree, b: &Tree) -> bool {
    if a.text && !b.text {
        return false;
    }
    for (m, x) in &a.attrs {
        match b.attrs.iter().find(|(_, y)| y == x) {
            None => return false,
            Some((m2, _)) => {
                if !*m && *m2 {
                    return false;
                }
            }
        }
    }
    for (m, c) in &a.children {
        match b.children.iter().find(|(_, d)| d.name == c.name) {
            None => return false,
            Some((m2, d)) => {
                if (!*m && *m2) || (!c.standalone && d.standalone) || !monotone(c, d) {
                    return false;
                }
            }
        }
    }
    true
}
fn tree_of_result(r: &ImplResult) -> Option<&Tree> {
    match r {
        ImplResult::Tree(t, _) => Some(t),
        _ => None,
    }
}
fn docs_json(b: &[Vec<u8>]) -> J {
    J::A(b.iter().map(|x| json::bytes(x)).collect())
}

fn c06_extra(_ctx: &mut Ctx, docs: &[Vec<Node>], bytes: &[Vec<u8>], b: &Built, rng: &mut Rng, hist: &mut Hist) -> Vec<J> {
    let mut fails = vec![];
    let Some(base) = tree_of_result(&b.result) else { return fails };
    let cfg = RCfg::default();
    let same_root = docs.iter().all(|d| root_name(d) == root_name(&docs[0]));
    let mut fail = |check: &str, what: String, variant: &[Vec<u8>], got: &ImplResult| {
        fails.push(json::obj(vec![("check", json::s(check)), ("what", json::s(what)), ("documents", docs_json(bytes)), ("variant_documents", docs_json(variant)), ("base_schema", json::s(canon(base))), ("variant_result", got.json())]));
    };
    // (a) order independence: a random permutation (the first document included)
    if same_root && docs.len() >= 2 {
        let mut idx: Vec<usize> = (0..docs.len()).collect();
        rng.shuffle(&mut idx);
        let v: Vec<Vec<u8>> = idx.iter().map(|i| bytes[*i].clone()).collect();
        let r = run_impl(&v, &cfg, &mut ErrTab::default());
        hist.add("c06:permutation");
        if tree_of_result(&r).map(canon) != Some(canon(base)) {
            fail("permutation", format!("supplying the documents in the order {:?} changes the schema", idx), &v, &r);
        }
    }
    // (b) supplying a document a second time
    if same_root {
        let i = rng.below(docs.len());
        let mut v = bytes.to_vec();
        v.insert(rng.range(1, v.len()), bytes[i].clone());
        let r = run_impl(&v, &cfg, &mut ErrTab::default());
        hist.add("c06:repetition");
        if tree_of_result(&r).map(canon) != Some(canon(base)) {
            fail("repetition", format!("supplying document {} a second time changes the schema", i), &v, &r);
        }
    }
    // (c) an empty or element-less document as an extension
    {
        let blank: &[&str] = &["", " ", "\n", "<!--c-->", "<?xml version=\"1.0\"?>", "<?pi?>\n", "<!DOCTYPE r>", "\n<!-- a --><!-- b -->\n"];
        let mut v = bytes.to_vec();
        v.insert(rng.range(1, v.len()), rng.pick(blank).as_bytes().to_vec());
        let r = run_impl(&v, &cfg, &mut ErrTab::default());
        hist.add("c06:element-less");
        if tree_of_result(&r).map(canon) != Some(canon(base)) {
            fail("element-less", "extending with an empty / element-less document changes the schema".into(), &v, &r);
        }
    }
    // (d) monotone along the sequence
    if same_root {
        let mut prev: Option<Tree> = None;
        for k in 1..=bytes.len() {
            let r = run_impl(&bytes[..k], &cfg, &mut ErrTab::default());
            hist.add("c06:monotone-step");
            match tree_of_result(&r) {
                Some(t) => {
                    if let Some(p) = &prev {
                        if !monotone(p, t) {
                            fail("monotone", format!("extending with document {} drops a field or turns Option/Vec into required/single", k - 1), &bytes[..k], &r);
                        }
                    }
                    prev = Some(t.clone());
                }
                None => fail("monotone", "prefix of an accepted sequence is rejected".into(), &bytes[..k], &r),
            }
        }
    }
    // (e) a failed extension is an error, not a partial result
    {
        let bad: &[&str] = &["<a><b></a>", "<a x=1/>", "<a x='1' x='2'/>", "<a><b>", "<a></b>", "<a>\u{0}<", "<a><![CDATA[x</a>", "<!-- unterminated"];
        let root = root_name(&docs[0]).unwrap_or("a".to_string());
        let mut v = bytes.to_vec();
        let bdoc = rng.pick(bad).replace("<a", &format!("<{}", root)).replace("</a>", &format!("</{}>", root));
        v.push(bdoc.into_bytes());
        let mut tab = ErrTab::default();
        let expect_err = record(v.last().unwrap(), &cfg, &mut tab).iter().any(|e| match e {
            Ev::Err(..) => true,
            Ev::Start(_, a) | Ev::Empty(_, a) => a.iter().any(|x| matches!(x, AttrRes::Err(_))),
            _ => false,
        });
        let r = run_impl(&v, &cfg, &mut ErrTab::default());
        hist.add(if expect_err { "c06:faulty-extension" } else { "c06:lenient-extension" });
        if expect_err && tree_of_result(&r).is_some() {
            fail("failed-extension", "an extension whose input is at fault returned Ok".into(), &v, &r);
        }
        if let ImplResult::Other(_) = r {
            fail("failed-extension", "extension panicked".into(), &v, &r);
        }
    }
    // (f) the stream carrying the extension breaks with an I/O error part-way: an error, not a
    // partial result (the earlier documents are read from a healthy stream)
    if bytes.len() >= 2 && rng.chance(1, 3) {
        let last = bytes.last().unwrap();
        if last.len() > 8 {
            let cut = rng.range(1, last.len() - 1);
            let bcfg = RCfg { fail_after: cut, bufcap: *rng.pick(&[1usize, 3, 16, 64]), ..cfg };
            let r = catch_io_extension(&bytes[..bytes.len() - 1], last, &cfg, &bcfg);
            hist.add("c06:io-error-in-extension");
            if let Some(what) = r {
                fail("failed-extension", what, bytes, &ImplResult::Other("see what".into()));
            }
        }
    }
    fails
}
/// parse all but the last document normally, then extend from a stream that breaks: must be Err
fn catch_io_extension(first: &[Vec<u8>], last: &[u8], cfg: &RCfg, bcfg: &RCfg) -> Option<String> {
    let r = std::panic::catch_unwind(std::panic::AssertUnwindSafe(|| {
        let mut cur = None;
        for d in first {
            match parse_one(d, cfg, cur.take()) {
                Ok(e) => cur = Some(e),
                Err(_) => return None, // not an accepted prefix: nothing to check
            }
        }
        let root = cur?;
        // does the recorder see an error on the broken stream? (it may break inside trailing white space)
        let mut tab = ErrTab::default();
        let sees_err = record(last, bcfg, &mut tab).iter().any(|e| matches!(e, Ev::Err(..)));
        match parse_one(last, bcfg, Some(root)) {
            Ok(_) if sees_err => Some(format!("the stream of the extension broke with an I/O error after {} bytes, extend_struct returned Ok", bcfg.fail_after)),
            _ => None,
        }
    }));
    match r {
        Ok(x) => x,
        Err(_) => Some("extend_struct panicked on a stream that breaks with an I/O error".into()),
    }
}
fn root_name(d: &[Node]) -> Option<String> {
    d.iter().find_map(|n| match n {
        Node::Elem { name, .. } => Some(name.clone()),
        _ => None,
    })
}
pub fn c06(ctx: &mut Ctx) {
    let mut evals = corr_core();
    evals.extend(vec![ev("exact", "or_exact", "oracle"), ev("hyp", "in_hyp_docs", "hyp")]);
    run_docprop(ctx, DocProp { evals, opts: opts_qx_one, exhaustive: true, n_rand: (2500, 16000), pools: vec![], tweak: no_tweak, extra: Some(c06_extra), max_docs: 4, with_chars: true, what: "each sequence is also re-run on the implementation permuted, with a repeated document, with an element-less document inserted, prefix by prefix (monotonicity) and with a faulty extension appended" });
}

// ------------------------------------------------------------------ C11
fn rewrite(n: &Node, rng: &mut Rng) -> Node {
    match n {
        Node::Text => {
            if rng.chance(1, 3) {
                Node::CData
            } else {
                Node::Text
            }
        }
        Node::CData => {
            if rng.chance(1, 3) {
                Node::Text
            } else {
                Node::CData
            }
        }
        Node::Misc => Node::Misc,
        Node::Elem { name, empty, attrs, kids } => {
            let mut ks: Vec<Node> = vec![];
            for k in kids {
                if *k == Node::Misc && rng.chance(1, 2) {
                    continue; // remove a comment / PI
                }
                if rng.chance(1, 8) {
                    ks.push(Node::Misc); // insert one
                }
                ks.push(rewrite(k, rng));
            }
            if !kids.is_empty() && rng.chance(1, 8) {
                ks.push(Node::Misc);
            }
            normalize(&mut ks);
            // `<x/>` <-> `<x></x>`
            let childless = ks.is_empty();
            let empty2 = if childless && rng.chance(1, 2) { !*empty } else { *empty && childless };
            Node::Elem { name: name.clone(), empty: empty2, attrs: attrs.clone(), kids: ks }
        }
    }
}
fn rewrite_doc(d: &[Node], rng: &mut Rng) -> Vec<Node> {
    let mut out = vec![];
    if rng.chance(1, 3) {
        out.push(Node::Misc); // declaration / DOCTYPE / comment in the prolog
    }
    for n in d {
        match n {
            Node::Misc if rng.chance(1, 2) => {}
            Node::Text => {}
            _ => out.push(rewrite(n, rng)),
        }
    }
    if rng.chance(1, 4) {
        out.push(Node::Misc);
    }
    out
}
fn c11_extra(_ctx: &mut Ctx, docs: &[Vec<Node>], bytes: &[Vec<u8>], b: &Built, rng: &mut Rng, hist: &mut Hist) -> Vec<J> {
    let mut fails = vec![];
    if tree_of_result(&b.result).is_none() {
        return fails;
    }
    let base: Vec<&Result<String, String>> = b.renders.iter().map(|(_, r)| r).collect();
    let opts: Vec<Opts> = b.renders.iter().map(|(o, _)| o.clone()).collect();
    let mut check = |label: &str, v: &[Vec<u8>], cfg: &RCfg, fails: &mut Vec<J>| {
        let r = run_impl(v, cfg, &mut ErrTab::default());
        hist.add(&format!("c11:{}", label));
        let outs: Vec<Result<String, String>> = match &r {
            ImplResult::Tree(_, e) => opts.iter().map(|o| render(e, o)).collect(),
            _ => vec![],
        };
        let same = outs.len() == base.len() && outs.iter().zip(base.iter()).all(|(a, b)| a == *b);
        if !same {
            fails.push(json::obj(vec![
                ("check", json::s(label)),
                ("what", json::s(format!("the rendering changes under the rewrite `{}`", label))),
                ("documents", docs_json(bytes)),
                ("variant_documents", docs_json(v)),
                ("reader", cfg.json()),
                ("base_output", json::s(base.get(0).and_then(|r| r.as_ref().ok()).cloned().unwrap_or_default())),
                ("variant_output", match outs.get(0) {
                    Some(Ok(s)) => json::s(s),
                    _ => r.json(),
                }),
            ]));
        }
    };
    let dflt = RCfg::default();
    // values, text content, whitespace inside tags, quoting: another style of the same DOM
    let v = serialise(docs, rng);
    check("other-values-and-text", &v, &dflt, &mut fails);
    // text <-> CDATA, comments / PIs / declaration / DOCTYPE inserted and removed, <x/> <-> <x></x>
    let d2: Vec<Vec<Node>> = docs.iter().map(|d| rewrite_doc(d, rng)).collect();
    let v2 = serialise(&d2, rng);
    check("dom-rewrites", &v2, &dflt, &mut fails);
    // reader asked to expand empty elements
    check("expand-empty-elements", bytes, &RCfg { expand_empty: true, ..dflt }, &mut fails);
    // buffer sizes
    let cap = *rng.pick(&[1usize, 2, 3, 7, 64, 8192]);
    check("bufreader-capacity", bytes, &RCfg { bufcap: cap, ..dflt }, &mut fails);
    check("rewrites+capacity+expand", &v2, &RCfg { bufcap: *rng.pick(&[1usize, 5, 16]), expand_empty: true, ..dflt }, &mut fails);
    fails
}
pub fn c11(ctx: &mut Ctx) {
    let evals = corr_core();
    run_docprop(ctx, DocProp { evals, opts: opts_presets, exhaustive: true, n_rand: (2000, 14000), pools: vec![], tweak: no_tweak, extra: Some(c11_extra), max_docs: 3, with_chars: true, what: "each sequence is also rendered by the implementation after re-serialising the same DOM with other values/text/whitespace, after DOM rewrites (text<->CDATA, comments/PIs/declaration/DOCTYPE inserted and removed, <x/> <-> <x></x>), with expand_empty_elements, and through BufReaders of capacity 1..8192; all renderings (both presets x both sorts) must be byte-identical" });
}

// ------------------------------------------------------------------ C05
fn c05_extra(ctx: &mut Ctx, _docs: &[Vec<Node>], bytes: &[Vec<u8>], b: &Built, rng: &mut Rng, hist: &mut Hist) -> Vec<J> {
    let mut fails = vec![];
    if tree_of_result(&b.result).is_none() {
        return fails;
    }
    let opts: Vec<Opts> = b.renders.iter().map(|(o, _)| o.clone()).collect();
    let base: Vec<String> = b.renders.iter().map(|(_, r)| r.clone().unwrap_or_default()).collect();
    let run_all = |bytes: &[Vec<u8>], opts: &[Opts]| -> Vec<String> {
        match run_impl(bytes, &RCfg::default(), &mut ErrTab::default()) {
            ImplResult::Tree(_, e) => opts.iter().map(|o| render(&e, o).unwrap_or_default()).collect(),
            r => vec![format!("{}", r.json().to_string())],
        }
    };
    let mut report = |how: &str, got: &Vec<String>| {
        fails.push(json::obj(vec![
            ("check", json::s(how)),
            ("what", json::s(format!("rendering differs between two runs on the same input ({})", how))),
            ("documents", docs_json(bytes)),
            ("first_run", json::s(base.get(0).cloned().unwrap_or_default())),
            ("other_run", json::s(got.iter().zip(base.iter()).find(|(a, b)| a != b).map(|(a, _)| a.clone()).unwrap_or_default())),
        ]));
    };
    // in-process repetitions: every HashMap::new() gets a fresh RandomState
    let reps = if ctx.thorough { 12 } else { 6 };
    for _ in 0..reps {
        hist.add("c05:in-process-repetition");
        let got = run_all(bytes, &opts);
        if got != base {
            report("in-process repetition", &got);
            break;
        }
    }
    // fresh threads (thread-local hash keys are re-seeded per thread)
    let nthreads = 3;
    let handles: Vec<_> = (0..nthreads)
        .map(|_| {
            let bytes = bytes.to_vec();
            let opts = opts.clone();
            std::thread::spawn(move || match run_impl(&bytes, &RCfg::default(), &mut ErrTab::default()) {
                ImplResult::Tree(_, e) => opts.iter().map(|o| render(&e, o).unwrap_or_default()).collect::<Vec<String>>(),
                r => vec![r.json().to_string()],
            })
        })
        .collect();
    for h in handles {
        hist.add("c05:fresh-thread");
        if let Ok(got) = h.join() {
            if got != base {
                report("another thread", &got);
            }
        }
    }
    // fresh processes (a sample: process start-up dominates)
    if rng.chance(1, if ctx.thorough { 10 } else { 25 }) {
        let dir = ctx.out.join("proc");
        std::fs::create_dir_all(&dir).ok();
        let mut args: Vec<String> = vec!["render-proc".into()];
        for (i, d) in bytes.iter().enumerate() {
            let p = dir.join(format!("d{}.xml", i));
            std::fs::write(&p, d).unwrap();
            args.push(p.to_string_lossy().to_string());
        }
        for _ in 0..2 {
            hist.add("c05:fresh-process");
            let exe = std::env::current_exe().unwrap();
            if let Ok(out) = std::process::Command::new(exe).args(&args).output() {
                let got = String::from_utf8_lossy(&out.stdout).to_string();
                let want: String = opts_presets(rng).iter().map(|o| run_all(bytes, &[o.clone()]).join("")).collect::<Vec<_>>().join("\u{1}");
                if got != want {
                    report("another process", &vec![got]);
                }
            }
        }
    }
    fails
}
/// `xsgh render-proc f1 f2 ..`: parse/extend the files and print the four standard renderings
pub fn render_proc(files: &[String]) {
    let bytes: Vec<Vec<u8>> = files.iter().map(|f| std::fs::read(f).unwrap()).collect();
    let mut rng = Rng::new(0);
    let outs: Vec<String> = match run_impl(&bytes, &RCfg::default(), &mut ErrTab::default()) {
        ImplResult::Tree(_, e) => opts_presets(&mut rng).iter().map(|o| render(&e, o).unwrap_or_default()).collect(),
        r => vec![r.json().to_string(); 4],
    };
    print!("{}", outs.join("\u{1}"));
}
pub fn c05(ctx: &mut Ctx) {
    two_big_subtrees_check(ctx, if ctx.thorough { 9000 } else { 4500 });
    let evals = vec![ev("tree", "ev_tree", "corr"), ev("bytes", "ev_bytes", "corr")];
    fn tweak(g: &mut GenCfg, rng: &mut Rng) {
        // multi-demotion shapes: wide parents repeated with different subsets of children
        g.max_kids = rng.range(3, 7);
        g.p_empty = 350;
    }
    run_docprop(ctx, DocProp { evals, opts: opts_presets, exhaustive: false, n_rand: (1500, 10000), pools: vec![0, 3, 3, 4, 5, 5, 6, 7, 9, 10, 11, 12, 23, 24], tweak, extra: Some(c05_extra), max_docs: 4, with_chars: true, what: "collision-prone name pools over-weighted; every case is parsed and rendered again 6-12x in process (fresh HashMap seeds), on 3 fresh threads and (a sample) in 2 fresh processes; all bytes must coincide and equal the model's" });
}
