//! document-sequence properties: one generic runner (generators, option sets, Coq evals)
//! plus per-property metamorphic checks carried out on the implementation alone.
use crate::core::*;
use crate::docs::*;
use crate::emit::{Eval, Hist, Shards};
use crate::json::{self, J};
use crate::rng::Rng;
use crate::xml::*;
use crate::Ctx;

pub fn name_pools() -> Vec<(Vec<&'static str>, Vec<&'static str>)> {
    vec![
        (vec!["a", "b", "c"], vec!["x", "y", "z"]),
        (vec!["a", "b"], vec!["x"]),
        (vec!["item", "name", "id", "list"], vec!["id", "lang"]),
        (vec!["a-b", "a_b", "A.B", "ab", "aB"], vec!["a-b", "a_b", "a.b"]),
        (vec!["type", "Type", "self", "loop", "Self", "crate", "SELF"], vec!["type", "ref", "as", "Self"]),
        (vec!["Foo", "foo", "FOO", "fOO"], vec!["Foo", "foo", "FOO"]),
        (vec!["text", "text_content", "x_attr", "x", "text_1"], vec!["x", "text", "x_attr", "text_content"]),
        (vec!["p:a", "q:b", "c", "p:c"], vec!["xmlns:p", "p:id", "id2", "xmlns", "q:id2"]),
        (vec!["Классификатор", "Ид", "Straße", "İd"], vec!["Ид", "ß", "Ǆ"]),
        (vec!["Total", "Price", "TotalPrice", "Other"], vec!["a"]),
        (vec!["string", "String", "option", "vec", "Vec", "Option"], vec!["a", "b"]),
        (vec!["a", "a1", "a2", "A"], vec!["a", "a_1", "a_attr"]),
        (vec!["PqRs", "A", "Pq", "RsA", "PqRsA"], vec!["k"]),
    ]
}

pub type Extra = fn(&mut Ctx, &[Vec<Node>], &[Vec<u8>], &Built, &mut Rng, &mut Hist) -> Vec<J>;

pub struct DocProp {
    pub evals: Vec<Eval>,
    pub opts: fn(&mut Rng) -> Vec<Opts>,
    pub exhaustive: bool,
    pub n_rand: (usize, usize),
    /// restrict pools (indices into name_pools), empty = all
    pub pools: Vec<usize>,
    pub tweak: fn(&mut GenCfg, &mut Rng),
    pub extra: Option<Extra>,
    pub max_docs: usize,
    pub with_chars: bool,
    pub what: &'static str,
}

pub fn no_tweak(_: &mut GenCfg, _: &mut Rng) {}

pub fn run_docprop(ctx: &mut Ctx, p: DocProp) {
    let per = if ctx.thorough { 1200 } else { 300 };
    let mut sh = Shards::new(&ctx.out, "docs", DOC_IMPORTS, "doccase", p.evals, "show_case", per);
    let mut hist = Hist::default();
    let mut samples: Vec<J> = vec![];
    let mut distinct = std::collections::HashSet::new();
    let mut evaluations = 0i64;
    let cfg = RCfg::default();
    let mut rng = ctx.rng.fork();
    let mut fails: Vec<J> = vec![];

    let mut cases: Vec<(Vec<Vec<Node>>, &'static str)> = vec![];
    let mut exh_note = String::new();
    if p.exhaustive {
        let roots: Vec<Node> = small_trees(3, &["a", "b"], "x").into_iter().filter(|n| matches!(n, Node::Elem { name, .. } if name == "a")).collect();
        let single_stride = if ctx.thorough { 1 } else { 5 };
        for (i, r) in roots.iter().enumerate() {
            if i % single_stride == (ctx.seed as usize) % single_stride {
                cases.push((vec![vec![r.clone()]], "exhaustive-single"));
            }
        }
        let stride = if ctx.thorough { 17 } else { 97 };
        let off = (ctx.seed as usize) % stride;
        let sub: Vec<&Node> = roots.iter().enumerate().filter(|(i, _)| i % stride == off).map(|(_, r)| r).collect();
        for a in &sub {
            for b in &sub {
                cases.push((vec![vec![(*a).clone()], vec![(*b).clone()]], "strided-pairs"));
            }
        }
        exh_note = format!("all {} small roots (2 names, 1 attribute, depth<=3) as single documents with stride {}, a strided {}x{} of their pairs (offset by seed); ", roots.len(), single_stride, sub.len(), sub.len());
    }
    let pools = name_pools();
    let n_rand = if ctx.thorough { p.n_rand.1 } else { p.n_rand.0 };
    for i in 0..n_rand {
        let pi = if p.pools.is_empty() {
            if i % 4 == 0 {
                0
            } else {
                rng.below(pools.len())
            }
        } else {
            *rng.pick(&p.pools)
        };
        let (names, attrs) = &pools[pi];
        let mut g = GenCfg::basic(names, attrs);
        g.max_depth = rng.range(2, 5);
        g.max_kids = rng.range(1, 6);
        g.max_nodes = rng.range(4, 30);
        (p.tweak)(&mut g, &mut rng);
        let k = rng.range(1, p.max_docs);
        let root = *rng.pick(&names[..names.len().min(2)]);
        let docs: Vec<Vec<Node>> = (0..k).map(|_| gen_doc(&mut rng, &g, root)).collect();
        cases.push((docs, "random-seq"));
    }
    for (docs, kind) in cases {
        let bytes = serialise(&docs, &mut rng);
        let opts = (p.opts)(&mut rng);
        let b = build_case(Some(&docs), &bytes, &cfg, &opts, &mut sh.intern, vec![("kind", json::s(kind))]);
        hist.add(kind);
        hist.add(&format!("docs={}", docs.len()));
        hist.add(&format!("result={}", b.result.class()));
        let nodes: usize = docs.iter().flat_map(|d| d.iter()).map(count_nodes).sum();
        hist.add(&format!("nodes~{}", ((nodes / 10) * 10).min(100)));
        if samples.len() < 4 && nodes >= 6 && docs.len() >= 2 {
            samples.push(b.descr.clone());
        }
        if nodes >= 3 {
            distinct.insert(format!("{:?}", docs));
        }
        for (o, r) in &b.renders {
            if let Err(m) = r {
                fails.push(json::obj(vec![("check", json::s("render-panic")), ("documents", J::A(bytes.iter().map(|x| json::bytes(x)).collect())), ("options", o.json()), ("what", json::s(m))]));
            }
        }
        if let Some(f) = p.extra {
            fails.extend(f(ctx, &docs, &bytes, &b, &mut rng, &mut hist));
        }
        sh.push(b.term, b.descr);
        evaluations += 1;
    }
    let files = sh.finish();
    ctx.shards.extend(files);
    if p.with_chars {
        ctx.add_chars();
    }
    ctx.impl_failures.extend(fails);
    ctx.meta.push(("evaluations", J::N(evaluations)));
    ctx.meta.push(("distinct_nontrivial", J::N(distinct.len() as i64)));
    ctx.meta.push(("rule", json::s(format!(
        "documents as DOM trees serialised with random incidental detail: {}{} random sequences of 1-{} documents with a common root (13 name pools incl. keywords, case/separator variants, prefixed, non-ASCII, concatenation traps; depth<=5, fan-out<=6); {}; non-trivial = at least 3 nodes, distinct by DOM sequence",
        exh_note, n_rand, p.max_docs, p.what))));
    ctx.meta.push(("histogram", hist.json()));
    ctx.meta.push(("samples", J::A(samples)));
}

fn ev(label: &'static str, func: &str, role: &'static str) -> Eval {
    Eval { label, func: func.to_string(), role }
}
fn corr_core() -> Vec<Eval> {
    vec![ev("events", "ev_events", "corr"), ev("tree", "ev_tree", "corr"), ev("dom", "ev_dom", "corr"), ev("bytes", "ev_bytes", "corr")]
}
fn opts_qx_one(rng: &mut Rng) -> Vec<Opts> {
    vec![Opts::quick_xml().sorted(rng.chance(1, 2))]
}
fn opts_qx_both(_: &mut Rng) -> Vec<Opts> {
    vec![Opts::quick_xml(), Opts::quick_xml().sorted(true)]
}
fn opts_presets(_: &mut Rng) -> Vec<Opts> {
    vec![Opts::quick_xml(), Opts::quick_xml().sorted(true), Opts::serde_xml_rs(), Opts::serde_xml_rs().sorted(true)]
}
fn rand_ident(rng: &mut Rng) -> String {
    rng.pick(&["$text", "$value", "text", "#text", "body", "", "@", "attr_", "_", "x-"]).to_string()
}
fn opts_variants(rng: &mut Rng) -> Vec<Opts> {
    let derives = ["Serialize, Deserialize", "", "Debug, Clone", "Debug", "serde::Deserialize, PartialEq", "A(B), C"];
    let mut v = vec![];
    for sorted in [false, true] {
        v.push(Opts::quick_xml().sorted(sorted));
        v.push(Opts::serde_xml_rs().sorted(sorted));
        v.push(Opts { text_identifier: rand_ident(rng), attribute_prefix: rand_ident(rng), derive: rng.pick(&derives).to_string(), sort_by_name: sorted });
    }
    v
}

// ------------------------------------------------------------------ C03 / C01 / C04 / C09 / C10 / C14
pub fn c03(ctx: &mut Ctx) {
    let mut evals = corr_core();
    evals.extend(vec![ev("exact", "or_exact", "oracle"), ev("reflects", "or_reflects", "oracle"), ev("hyp", "in_hyp_docs", "hyp")]);
    run_docprop(ctx, DocProp { evals, opts: opts_qx_one, exhaustive: true, n_rand: (2000, 60000), pools: vec![], tweak: no_tweak, extra: None, max_docs: 4, with_chars: true, what: "rendered with the quick-xml preset, sort option chosen at random" });
}
pub fn c01(ctx: &mut Ctx) {
    let mut evals = corr_core();
    evals.extend(vec![ev("admits", "or_admits", "oracle"), ev("hyp", "in_hyp_admits", "hyp")]);
    run_docprop(ctx, DocProp { evals, opts: opts_qx_both, exhaustive: true, n_rand: (2000, 60000), pools: vec![], tweak: no_tweak, extra: None, max_docs: 4, with_chars: true, what: "rendered with the quick-xml preset under both sort options; each source document is checked against the parsed rendering" });
}
pub fn c04(ctx: &mut Ctx) {
    let mut evals = vec![ev("bytes", "ev_bytes", "corr"), ev("wf", "or_wf", "oracle"), ev("reflects", "or_reflects", "oracle"), ev("hyp", "in_hyp_names", "hyp")];
    evals.insert(0, ev("tree", "ev_tree", "corr"));
    run_docprop(ctx, DocProp { evals, opts: opts_presets, exhaustive: false, n_rand: (2500, 60000), pools: vec![3, 4, 5, 6, 7, 8, 9, 10, 11, 12], tweak: no_tweak, extra: None, max_docs: 3, with_chars: true, what: "adversarial name pools only; both presets x both sort options" });
}
pub fn c09(ctx: &mut Ctx) {
    let mut evals = corr_core();
    evals.extend(vec![ev("exact", "or_exact", "oracle"), ev("reflects", "or_reflects", "oracle"), ev("only_order", "or_only_order", "oracle"), ev("hyp", "in_hyp_docs", "hyp")]);
    fn tweak(g: &mut GenCfg, rng: &mut Rng) {
        // several new attributes / children in later occurrences: many attributes, wide fan-out
        g.max_kids = rng.range(3, 7);
        if g.attrs.len() < 5 {
            g.attrs.extend(["k1", "k2", "k3"].iter().map(|s| s.to_string()));
        }
    }
    run_docprop(ctx, DocProp { evals, opts: opts_qx_both, exhaustive: true, n_rand: (2000, 60000), pools: vec![], tweak, extra: None, max_docs: 4, with_chars: true, what: "renderings in pairs (Unsorted, XmlName); generator widened to many attributes/children appearing late" });
}
pub fn c10(ctx: &mut Ctx) {
    let evals = vec![ev("tree", "ev_tree", "corr"), ev("bytes", "ev_bytes", "corr"), ev("reflects", "or_reflects", "oracle"), ev("derive", "or_derive", "oracle"), ev("orthogonal", "or_orthogonal", "oracle")];
    run_docprop(ctx, DocProp { evals, opts: opts_variants, exhaustive: false, n_rand: (1500, 40000), pools: vec![], tweak: no_tweak, extra: None, max_docs: 3, with_chars: true, what: "six option values per tree: both presets and a random (text identifier, attribute prefix, derive) under both sort options" });
}
pub fn c14(ctx: &mut Ctx) {
    let mut evals = vec![ev("tree", "ev_tree", "corr"), ev("bytes", "ev_bytes", "corr"), ev("names", "or_names", "oracle"), ev("hyp", "in_hyp_names", "hyp")];
    evals.push(ev("reflects", "or_reflects", "oracle"));
    fn tweak(g: &mut GenCfg, rng: &mut Rng) {
        // the same name at many depths and under itself: few names, deep trees
        g.max_depth = rng.range(3, 6);
        g.p_empty = 120;
        if rng.chance(1, 2) && g.names.len() > 2 {
            g.names.truncate(2);
        }
    }
    run_docprop(ctx, DocProp { evals, opts: opts_qx_both, exhaustive: false, n_rand: (2500, 60000), pools: vec![], tweak, extra: None, max_docs: 3, with_chars: true, what: "few names and deep trees so the same name recurs under different parents, at different depths and under itself" });
}
