//! C07 / C08: hostile byte strings — structured damage to valid serialisations, byte-level
//! mutation, raw random bytes, deep nesting — through every reader configuration.
use crate::core::*;
use crate::docs::*;
use crate::emit::{Eval, Hist, Shards};
use crate::json::{self, J};
use crate::rng::Rng;
use crate::xml::*;
use crate::Ctx;

fn find_all(b: &[u8], pat: &[u8]) -> Vec<usize> {
    if pat.is_empty() || b.len() < pat.len() {
        return vec![];
    }
    (0..=b.len() - pat.len()).filter(|i| &b[*i..*i + pat.len()] == pat).collect()
}
fn splice(b: &mut Vec<u8>, at: usize, del: usize, ins: &[u8]) {
    let at = at.min(b.len());
    let end = (at + del).min(b.len());
    b.splice(at..end, ins.iter().cloned());
}

/// one structured damage; returns its label
fn damage(b: &mut Vec<u8>, rng: &mut Rng) -> &'static str {
    let kind = rng.below(18);
    match kind {
        0 => {
            // unquoted attribute value
            let q = find_all(b, b"=\"");
            if let Some(&i) = q.get(rng.below(q.len().max(1))) {
                if let Some(j) = b[i + 2..].iter().position(|c| *c == b'"') {
                    b.remove(i + 2 + j);
                    b.remove(i + 1);
                    return "unquoted-attribute";
                }
            }
            "none"
        }
        1 => {
            // duplicated attribute: copy ` key="v"` right after itself
            let q = find_all(b, b"=\"");
            if let Some(&i) = q.get(rng.below(q.len().max(1))) {
                let mut st = i;
                while st > 0 && !b[st - 1].is_ascii_whitespace() && b[st - 1] != b'<' {
                    st -= 1;
                }
                if let Some(j) = b[i + 2..].iter().position(|c| *c == b'"') {
                    let mut piece = vec![b' '];
                    piece.extend_from_slice(&b[st..i + 3 + j]);
                    splice(b, i + 3 + j, 0, &piece);
                    return "duplicated-attribute";
                }
            }
            "none"
        }
        2 => {
            // attribute without '=' / value
            let q = find_all(b, b"=");
            if let Some(&i) = q.get(rng.below(q.len().max(1))) {
                let mut end = i + 1;
                if end < b.len() && (b[end] == b'"' || b[end] == b'\'') {
                    let qc = b[end];
                    end += 1;
                    while end < b.len() && b[end] != qc {
                        end += 1;
                    }
                    end += 1;
                }
                splice(b, i, end.min(b.len()) - i, if rng.chance(1, 2) { b"" } else { b" " });
                return "attribute-without-value";
            }
            "none"
        }
        3 => {
            // invalid UTF-8 right after a '<' (element name)
            let q = find_all(b, b"<");
            if let Some(&i) = q.get(rng.below(q.len().max(1))) {
                splice(b, i + 1 + rng.below(2), 0, &[0xFF]);
                return "non-utf8-in-name";
            }
            "none"
        }
        4 => {
            // invalid UTF-8 just before '=' (attribute key)
            let q = find_all(b, b"=");
            if let Some(&i) = q.get(rng.below(q.len().max(1))) {
                splice(b, i, 0, &[0xC3]);
                return "non-utf8-in-key";
            }
            "none"
        }
        5 => {
            // invalid UTF-8 after '>' (text) or inside CDATA / a comment / a value
            // (also inside a processing instruction / the declaration / a DOCTYPE: seeded change
            // C11-m16 decodes the content of comments and PIs)
            let pats: [&[u8]; 7] = [b">", b"<![CDATA[", b"<!--", b"=\"", b"<?", b"<!DOCTYPE ", b"<!--"];
            let p = pats[rng.below(7)];
            let q = find_all(b, p);
            if let Some(&i) = q.get(rng.below(q.len().max(1))) {
                splice(b, i + p.len(), 0, if rng.chance(1, 2) { &[0xFF] } else { &[0xE2, 0x82] });
                return "non-utf8-in-content";
            }
            "none"
        }
        6 => {
            // mismatched end tag
            let q = find_all(b, b"</");
            if let Some(&i) = q.get(rng.below(q.len().max(1))) {
                splice(b, i + 2, 1, b"zz");
                return "mismatched-end-tag";
            }
            "none"
        }
        7 => {
            // unmatched extra end tag
            let at = rng.below(b.len() + 1);
            let at = b[..at].iter().rposition(|c| *c == b'>').map(|x| x + 1).unwrap_or(0);
            splice(b, at, 0, if rng.chance(1, 2) { b"</a>" } else { b"</zz>" });
            "extra-end-tag"
        }
        8 => {
            // missing end tag
            let q = find_all(b, b"</");
            if let Some(&i) = q.get(rng.below(q.len().max(1))) {
                if let Some(j) = b[i..].iter().position(|c| *c == b'>') {
                    splice(b, i, j + 1, b"");
                    return "missing-end-tag";
                }
            }
            "none"
        }
        9 => {
            let at = rng.below(b.len() + 1);
            b.truncate(at);
            "truncation"
        }
        10 => {
            // prolog / DOCTYPE / PI / comment noise, possibly broken
            let noise: [&[u8]; 11] = [b"<?xml version=\"1.0\"?>", b"<!DOCTYPE a [<!ENTITY e \"v\">]>", b"<!-- c -->", b"<?pi", b"<!--", b"<!DOCTYPE", b"<![CDATA[", b"<!>",
                b"<!DOCTYPE a [<!ENTITY x SYSTEM \"x.xml\"><!ENTITY % p PUBLIC \"-//P//EN\" \"p.ent\">]>", b"<!DOCTYPE a SYSTEM \"a.dtd\" [<!ATTLIST a x CDATA #IMPLIED>]>", b"<?xml encoding=\"UTF-8\"?>"];
            let at = if rng.chance(1, 2) { 0 } else { rng.below(b.len() + 1) };
            splice(b, at, 0, noise[rng.below(noise.len())]);
            "markup-noise"
        }
        11 => {
            let n = rng.range(1, 4);
            for _ in 0..n {
                if b.is_empty() {
                    break;
                }
                let i = rng.below(b.len());
                b[i] ^= 1 << rng.below(8);
            }
            "bit-flips"
        }
        12 => {
            let i = rng.below(b.len() + 1);
            let alphabet = b"<>/=\"' a!-[]?&;:\xff\x00x\n";
            let n = rng.range(1, 3);
            let ins: Vec<u8> = (0..n).map(|_| alphabet[rng.below(alphabet.len())]).collect();
            splice(b, i, 0, &ins);
            "byte-insert"
        }
        13 => {
            if !b.is_empty() {
                let i = rng.below(b.len());
                let n = rng.range(1, 3);
                splice(b, i, n, b"");
            }
            "byte-delete"
        }
        14 => {
            // quote damage
            let q = find_all(b, b"\"");
            if let Some(&i) = q.get(rng.below(q.len().max(1))) {
                b[i] = if rng.chance(1, 2) { b'\'' } else { b' ' };
                return "quote-damage";
            }
            "none"
        }
        15 => {
            // white space inside an end tag: after the name it is legal, before it it is not
            let q = find_all(b, b"</");
            if let Some(&i) = q.get(rng.below(q.len().max(1))) {
                if rng.chance(1, 2) {
                    splice(b, i + 2, 0, *rng.pick(&[b" ".as_slice(), b"\n", b"\t "]));
                    return "blank-before-end-name";
                } else if let Some(j) = b[i..].iter().position(|c| *c == b'>') {
                    splice(b, i + j, 0, *rng.pick(&[b" ".as_slice(), b"\n", b"\t "]));
                    return "blank-after-end-name";
                }
            }
            "none"
        }
        16 => {
            // an invalid byte exactly where another name of the document has U+FFFD
            let q = find_all(b, "\u{FFFD}".as_bytes());
            if let Some(&i) = q.get(rng.below(q.len().max(1))) {
                splice(b, i, 3, if rng.chance(1, 2) { &[0xFF] } else { &[0xC3] });
                return "invalid-byte-for-U+FFFD";
            }
            "none"
        }
        _ => {
            // second root / trailing garbage
            let tails: [&[u8]; 5] = [b"<b/>", b"<a/>", b"text", b"<", b"</a>"];
            let t = tails[rng.below(tails.len())];
            b.extend_from_slice(t);
            "trailing-content"
        }
    }
}

fn raw_random(rng: &mut Rng) -> Vec<u8> {
    let n = rng.below(40);
    if rng.chance(1, 2) {
        (0..n).map(|_| rng.below(256) as u8).collect()
    } else {
        let alphabet = b"<<<>>>//==\"\"'' ab!-[]?&;:\xff\n";
        (0..n).map(|_| alphabet[rng.below(alphabet.len())]).collect()
    }
}
fn deep(rng: &mut Rng, depth: usize) -> Vec<u8> {
    let mut s = String::new();
    let names = ["a", "b", "a", "a"];
    let mut stack = vec![];
    for i in 0..depth {
        let n = if rng.chance(1, 2) { "a" } else { names[i % 4] };
        s.push_str(&format!("<{}>", n));
        stack.push(n);
        if rng.chance(1, 20) {
            s.push_str("<x/>t");
        }
    }
    let close = match rng.below(3) {
        0 => depth,
        1 => rng.below(depth + 1),
        _ => depth,
    };
    for _ in 0..close {
        if let Some(n) = stack.pop() {
            s.push_str(&format!("</{}>", n));
        }
    }
    s.into_bytes()
}

/// `xsgh parse-plain f1 f2 ..`: parse / extend the files and render, on a thread with the 8 MiB stack
/// of an ordinary main thread (the harness itself works on 256 MiB): prints `ok` or `err`
pub fn parse_plain(files: &[String]) {
    let bytes: Vec<Vec<u8>> = files.iter().map(|f| std::fs::read(f).unwrap()).collect();
    let h = std::thread::Builder::new()
        .stack_size(8 << 20)
        .spawn(move || {
            let mut tab = ErrTab::default();
            match run_impl(&bytes, &RCfg::default(), &mut tab) {
                ImplResult::Tree(_, e) => {
                    let _ = render(&e, &Opts::quick_xml());
                    "ok"
                }
                ImplResult::Other(_) => "other",
                _ => "err",
            }
        })
        .unwrap();
    match h.join() {
        Ok(r) => println!("{}", r),
        Err(_) => println!("panic"),
    }
}
/// well-formed documents whose size lies in a dimension that costs the library nothing per item
/// unless something recurses or accumulates per item: run in a fresh process on an ordinary stack
fn plain_stack_cases(ctx: &mut Ctx, hist: &mut Hist, fails: &mut Vec<J>) {
    let n = if ctx.thorough { 200_000 } else { 40_000 };
    let rep = |unit: &str, k: usize| -> String { unit.repeat(k) };
    let cases: Vec<(&str, String, &str)> = vec![
        ("consecutive-comments", format!("{}<a k=\"1\"/>", rep("<!--c-->", n)), "ok"),
        ("consecutive-processing-instructions", format!("<a>{}<b/></a>", rep("<?p d?>", n)), "ok"),
        ("consecutive-comments-and-text", format!("<a>{}</a>", rep("<!--c-->t", n)), "ok"),
        ("consecutive-cdata", format!("<a>{}</a>", rep("<![CDATA[c]]>", n)), "ok"),
        ("consecutive-empty-siblings", format!("<a>{}</a>", rep("<b/>", n)), "ok"),
        ("consecutive-sibling-pairs", format!("<a>{}</a>", rep("<b></b><c/>", n / 2)), "ok"),
        ("nesting-200", format!("{}{}", rep("<a>", 200), rep("</a>", 200)), "ok"),
        ("doctype-then-comments", format!("<!DOCTYPE a [<!ENTITY e \"v\">]>{}<a/>", rep("<!-- x -->\n", n)), "ok"),
    ];
    let dir = ctx.out.join("plain");
    std::fs::create_dir_all(&dir).ok();
    let exe = std::env::current_exe().unwrap();
    for (name, doc, want) in cases {
        let p = dir.join(format!("{}.xml", name));
        std::fs::write(&p, doc.as_bytes()).unwrap();
        hist.add(&format!("plain-stack:{}", name));
        match std::process::Command::new(&exe).arg("parse-plain").arg(&p).output() {
            Ok(o) => {
                let got = String::from_utf8_lossy(&o.stdout).trim().to_string();
                if o.status.code() != Some(0) || got != want {
                    fails.push(json::obj(vec![
                        ("check", json::s("plain-stack")),
                        ("what", json::s(format!("a well-formed document ({}: {} items, {} bytes) parsed in a fresh process on an 8 MiB stack: exit status {:?}, output {:?}, stderr {:?}; expected exit 0 and `{}` (a stack overflow aborts the process)", name, n, doc.len(), o.status.code(), got, String::from_utf8_lossy(&o.stderr).chars().take(200).collect::<String>(), want))),
                        ("documents", J::A(vec![json::s(format!("{} ({} items; first 60 bytes: {})", name, n, &doc[..60.min(doc.len())]))])),
                    ]));
                }
            }
            Err(e) => fails.push(json::obj(vec![("check", json::s("plain-stack")), ("what", json::s(format!("cannot start the child process: {}", e)))])),
        }
        let _ = std::fs::remove_file(&p);
    }
}

pub fn run(ctx: &mut Ctx, c07: bool) {
    let evals = if c07 {
        vec![
            Eval { label: "tree", func: "ev_tree".into(), role: "corr" },
            Eval { label: "bytes", func: "ev_bytes".into(), role: "corr" },
            Eval { label: "total", func: "or_total".into(), role: "oracle" },
            Eval { label: "hyp", func: "in_hyp_sigma".into(), role: "hyp" },
        ]
    } else {
        vec![Eval { label: "tree", func: "ev_tree".into(), role: "corr" }, Eval { label: "verdict", func: "or_verdict".into(), role: "oracle" }]
    };
    let per = if ctx.thorough { 2000 } else { 500 };
    let mut sh = Shards::new(&ctx.out, "bytes", DOC_IMPORTS, "doccase", evals, "show_case", per);
    let mut lx = crate::lex::LexShards::new(&ctx.out, ctx.thorough);
    let mut hist = Hist::default();
    let mut samples: Vec<J> = vec![];
    let mut distinct = std::collections::HashSet::new();
    let mut evaluations = 0i64;
    let mut rng = ctx.rng.fork();
    let mut fails: Vec<J> = vec![];
    plain_stack_cases(ctx, &mut hist, &mut fails);
    let pools = crate::docprops::name_pools();
    let n = if ctx.thorough { if c07 { 60000 } else { 50000 } } else if c07 { 6000 } else { 6000 };

    let mut cases: Vec<(Vec<Vec<u8>>, String)> = vec![];
    // exhaustive truncation of a few small documents
    let small: [&str; 6] = [
        "<a x=\"1\" y='2'><b>t</b><b/><![CDATA[c]]><!--k--></a>",
        "<?xml version=\"1.0\"?><r><p:q xmlns:p=\"u\" p:k=\"v\"/>\n</r>",
        "<a><b><c d=\"e\"></c></b><b></b></a>",
        "<a>&amp;<b x=\"&lt;\"/></a><!-- t -->",
        "<Ж ж=\"1\">текст</Ж>",
        "<a><?pi x?><b/><b/></a>",
    ];
    for (k, d) in small.iter().enumerate() {
        if !ctx.thorough && k % 2 == (ctx.seed as usize) % 2 {
            continue;
        }
        for i in 0..=d.len() {
            cases.push((vec![d.as_bytes()[..i].to_vec()], "truncation-exhaustive".into()));
            if i % 3 == 0 {
                cases.push((vec![d.as_bytes().to_vec(), d.as_bytes()[..i].to_vec()], "truncated-extension".into()));
            }
        }
    }
    // a dozen spellings of one name, as children and as attributes (everything that numbers
    // colliding identifiers runs past a single digit here)
    {
        let mut sp: Vec<String> = vec![];
        for sep in ["_", "-", "."] {
            for (a, b) in [("unit", "price"), ("Unit", "Price"), ("UNIT", "PRICE")] {
                sp.push(format!("{}{}{}", a, sep, b));
            }
        }
        for x in ["unitPrice", "UnitPrice", "unit_Price", "unit__price", "unit:price"] {
            sp.push(x.to_string());
        }
        let kids: String = sp.iter().map(|n| format!("<{} k=\"1\"/>", n)).collect();
        let leafs: String = sp.iter().map(|n| format!("<{}>t</{}>", n, n)).collect();
        let attrs: String = sp.iter().filter(|n| !n.contains(':')).map(|n| format!(" {}=\"1\"", n)).collect();
        cases.push((vec![format!("<orders>{}</orders>", kids).into_bytes()], "many-spellings-of-one-name".into()));
        cases.push((vec![format!("<orders>{}</orders>", leafs).into_bytes()], "many-spellings-of-one-name".into()));
        cases.push((vec![format!("<orders{}/>", attrs).into_bytes(), format!("<orders{}>{}</orders>", attrs, kids).into_bytes()], "many-spellings-of-one-name".into()));
    }
    // every sequence of markup tokens up to a length, well-formed or not: all interleavings of
    // open / close / empty / text / faults that fit, alone and as an extension of a parsed root
    let toks: [&[u8]; 14] = [
        b"<a>", b"<b>", b"<a/>", b"<b x=\"1\"/>", b"<a x=\"1\" y=\"2\">", b"</a>", b"</b>", b"t", b"<!--c-->", b"<![CDATA[d]]>",
        b"<a x=1>", b"<b x=\"1\" x=\"2\"/>", b"\xFF", b"</ a>",
    ];
    let max_len = if ctx.thorough { 5 } else { 4 };
    let mut idx: Vec<usize> = vec![];
    fn next(idx: &mut Vec<usize>, base: usize, max_len: usize) -> bool {
        let mut i = idx.len();
        while i > 0 {
            i -= 1;
            if idx[i] + 1 < base {
                idx[i] += 1;
                return true;
            }
            idx[i] = 0;
        }
        if idx.len() < max_len {
            idx.push(0);
            for x in idx.iter_mut() {
                *x = 0;
            }
            return true;
        }
        false
    }
    while next(&mut idx, toks.len(), max_len) {
        let mut b: Vec<u8> = vec![];
        for &t in &idx {
            b.extend_from_slice(toks[t]);
        }
        if idx.len() <= 3 {
            cases.push((vec![b"<a><b x=\"1\"/>t</a>".to_vec(), b.clone()], "token-exhaustive-extension".into()));
        }
        cases.push((vec![b], "token-exhaustive".into()));
    }
    for b in crate::lex::edge_cases() {
        cases.push((vec![b], "lexer-edge".into()));
    }
    // byte strings made of the pieces the reader's automaton distinguishes (markup openers and
    // closers, quotes, blanks, a byte-order mark, invalid UTF-8): they go through the whole check and
    // through the lexer correspondence
    for _ in 0..(if ctx.thorough { 12000 } else { 2500 }) {
        cases.push((vec![crate::lex::soup(&mut rng)], "markup-soup".into()));
    }
    for i in 0..n {
        let rp = crate::docprops::rand_pool(&mut rng);
        let rnames: Vec<&str> = rp.0.iter().map(|x| x.as_str()).collect();
        let rattrs: Vec<&str> = rp.1.iter().map(|x| x.as_str()).collect();
        let pi = rng.below(pools.len());
        let (names, attrs) = if i % 3 == 1 { (&rnames, &rattrs) } else { (&pools[pi].0, &pools[pi].1) };
        let mut g = GenCfg::basic(names, attrs);
        g.max_nodes = rng.range(3, 20);
        g.max_depth = rng.range(2, 4);
        let ndocs = if rng.chance(1, 3) { 2 } else { 1 };
        let mut docs: Vec<Vec<u8>> = vec![];
        let mut label = String::new();
        for di in 0..ndocs {
            let r = i % 20;
            if r == 0 {
                docs.push(raw_random(&mut rng));
                label = "raw-random".into();
            } else if r == 3 && i % 40 == 3 {
                // a long run of text with multi-byte characters at every alignment, optionally an
                // invalid byte far from the start
                let pad = rng.range(200, 5000);
                let mut b: Vec<u8> = b"<a><b>".to_vec();
                b.extend(std::iter::repeat(b'x').take(pad));
                b.extend_from_slice(*rng.pick(&["\u{e9}", "\u{20ac}", "\u{1F600}", "z"]).as_bytes().to_vec().as_slice().chunks(8).next().as_ref().unwrap());
                if rng.chance(1, 2) {
                    b.push(0xFF);
                    label = "long-text-invalid".into();
                } else {
                    label = "long-text".into();
                }
                b.extend_from_slice(b"tail</b></a>");
                docs.push(b);
            } else if r == 4 && i % 40 == 4 {
                // a name that is not valid UTF-8 next to a sibling (or, as an extension, an existing
                // element) whose valid name has U+FFFD exactly where the invalid bytes are: anything
                // that looks names up after a lossy decoding takes the two for one
                let stem = *rng.pick(&["a", "item", "x-y", "\u{416}"]);
                let tail = *rng.pick(&["", "b", "1"]);
                let bad: &[u8] = *rng.pick(&[&[0xFFu8][..], &[0xC3], &[0xE2, 0x82], &[0xF0, 0x9F]]);
                let good = format!("{}{}{}", stem, "\u{FFFD}", tail);
                let mut badname: Vec<u8> = stem.as_bytes().to_vec();
                badname.extend_from_slice(bad);
                badname.extend_from_slice(tail.as_bytes());
                let attrs = *rng.pick(&["", " k=\"1\"", " k=\"1\" v='2'"]);
                let mut b: Vec<u8> = Vec::new();
                if ndocs == 2 {
                    if di == 0 {
                        b.extend_from_slice(format!("<r><{}{}/></r>", good, attrs).as_bytes());
                    } else {
                        b.extend_from_slice(b"<r><");
                        b.extend_from_slice(&badname);
                        b.extend_from_slice(attrs.as_bytes());
                        b.extend_from_slice(if rng.chance(1, 2) { b"/></r>" } else { b"></r>" });
                    }
                } else {
                    b.extend_from_slice(format!("<r><{}{}/><", good, attrs).as_bytes());
                    b.extend_from_slice(&badname);
                    b.extend_from_slice(attrs.as_bytes());
                    b.extend_from_slice(if rng.chance(1, 2) { b"/></r>" } else { b"><c/></r>" });
                }
                label = "invalid-name-beside-its-lossy-twin".into();
                docs.push(b);
            } else if r == 1 {
                // the property bounds C07 at depth 200; a share goes well beyond (C08 has no bound)
                let depth = match rng.below(8) {
                    0 | 1 => 200,
                    2 => rng.range(250, 300),
                    3 => rng.range(500, 700),
                    _ => rng.range(1, 200),
                };
                docs.push(deep(&mut rng, depth));
                label = "deep-nesting".into();
            } else {
                let d = gen_doc(&mut rng, &g, names[0]);
                let mut st = Style::new(rng.fork());
                let mut b = write_doc(&d, &mut st).into_bytes();
                // the first document of a pair is usually left intact so that the extension is reached
                let k = if ndocs == 2 && di == 0 && rng.chance(3, 4) { 0 } else if r == 2 { 0 } else { rng.range(1, 3) };
                let mut l = vec![];
                for _ in 0..k {
                    l.push(damage(&mut b, &mut rng));
                }
                if di == ndocs - 1 {
                    label = if l.is_empty() { "valid".to_string() } else { l.join("+") };
                }
                docs.push(b);
            }
        }
        cases.push((docs, label));
    }
    let caps = [0usize, 0, 1, 2, 3, 7, 64, 8192];
    let mut lex_seen = 0usize;
    for (docs, label) in cases {
        let cfg = if c07 {
            RCfg {
                trim_text: rng.chance(1, 3),
                trim_end: rng.chance(1, 5),
                trim_start: rng.chance(1, 8),
                expand_empty: rng.chance(1, 3),
                check_end_names: !rng.chance(1, 3),
                bufcap: *rng.pick(&caps),
                allow_unmatched_ends: rng.chance(1, 4),
                skip_events: if rng.chance(1, 6) { rng.range(1, 3) } else { 0 },
                fail_after: 0,
            }
        } else {
            RCfg { bufcap: if rng.chance(1, 4) { *rng.pick(&caps) } else { 0 }, ..RCfg::default() }
        };
        // a tenth of the inputs arrive through a stream that breaks with an I/O error part-way
        let total: usize = docs.last().map(|d| d.len()).unwrap_or(0);
        let cfg = if total > 2 && rng.chance(1, 10) { RCfg { fail_after: rng.range(1, total), bufcap: *rng.pick(&[1usize, 3, 7, 64]), ..cfg } } else { cfg };
        let opts = if c07 {
            vec![if rng.chance(1, 2) { Opts::quick_xml() } else { Opts::serde_xml_rs() }.sorted(rng.chance(1, 2))]
        } else {
            vec![]
        };
        // deeply nested chains are rendered by the implementation (it must not panic) but
        // not by the model: name hints of a 200-deep chain are slow to evaluate in Coq
        let deep = label == "deep-nesting" && docs.iter().any(|d| d.len() > 150);
        // the lexer model against the real reader (default configuration, from the slice): every
        // short input, except that only a seventh of the longest token sequences are taken
        lex_seen += 1;
        if !(label == "token-exhaustive" && docs[0].len() > 12 && lex_seen % 7 != 0) {
            for d in &docs {
                lx.add(d, label.split('+').next().unwrap_or(""));
            }
        }
        let b = build_case(None, &docs, &cfg, if deep { &[] } else { &opts }, &mut sh.intern, vec![("kind", json::s(&label))]);
        if deep {
            if let ImplResult::Tree(_, e) = &b.result {
                for o in &opts {
                    hist.add("deep-rendered-by-implementation-only");
                    if let Err(m) = render(e, o) {
                        fails.push(json::obj(vec![("check", json::s("render-panic")), ("documents", J::A(docs.iter().map(|x| json::bytes(x)).collect())), ("options", o.json()), ("what", json::s(m))]));
                    }
                }
            }
        }
        for part in label.split('+') {
            hist.add(&format!("input:{}", part));
        }
        hist.add(&format!("verdict:{}", b.result.class()));
        if c07 {
            hist.add(&format!("reader:trim={},expand={},check_end={},cap={}", cfg.trim_text, cfg.expand_empty, cfg.check_end_names, cfg.bufcap));
            hist.add(&format!("reader:allow_unmatched_ends={},caller_read_first={}", cfg.allow_unmatched_ends, cfg.skip_events));
            hist.add(&format!("reader:trim_end_only={},trim_start_only={}", cfg.trim_end && !cfg.trim_text, cfg.trim_start && !cfg.trim_text));
        }
        if cfg.fail_after > 0 {
            hist.add("reader:io-error-part-way");
        }
        for (o, r) in &b.renders {
            if let Err(m) = r {
                fails.push(json::obj(vec![("check", json::s("render-panic")), ("documents", J::A(docs.iter().map(|x| json::bytes(x)).collect())), ("options", o.json()), ("what", json::s(m))]));
            }
        }
        if let ImplResult::Other(m) = &b.result {
            if c07 {
                fails.push(json::obj(vec![("check", json::s("panic-or-hang")), ("documents", J::A(docs.iter().map(|x| json::bytes(x)).collect())), ("reader", cfg.json()), ("what", json::s(m))]));
            }
        }
        if samples.len() < 5 && label != "valid" && docs[0].len() > 12 && evaluations % 97 == 0 {
            samples.push(b.descr.clone());
        }
        if docs.iter().any(|d| d.len() >= 4) {
            distinct.insert(docs.clone());
        }
        sh.push(b.term, b.descr);
        evaluations += 1;
    }
    // ---- state carried from call to call on one thread
    {
        let mut inputs: Vec<Vec<u8>> = vec![];
        let bad: [&[u8]; 8] = [b"<a x=1>", b"<a x='1' x='2'/>", b"<a><b></a>", b"<a>\xFF</a>", b"<a><b><c><d x=1/></c></b></a>", b"</a>", b"<a><!-- ", b"<a><b x='1' x='2'><c/></b></a>"];
        let good: [&[u8]; 3] = [b"<a><b/></a>", b"<r x='1'>t<k/><k/></r>", b"<a/>"];
        for i in 0..(if ctx.thorough { 6000 } else { 2400 }) {
            inputs.push(if i % 5 == 4 { good[i % 3].to_vec() } else { bad[(i * 7) % 8].to_vec() });
        }
        let reference: Vec<Vec<u8>> = vec![
            b"<order id='1'><customer vip='y'><name>n</name></customer><item sku='s'>t</item><item sku='u'/></order>".to_vec(),
            b"<order id='2' rush='1'><item sku='s'><note>x</note></item></order>".to_vec(),
        ];
        if let Some(what) = history_check(&inputs, &reference, 100) {
            fails.push(json::obj(vec![("check", json::s("history-dependence")), ("what", json::s(what)), ("documents", J::A(reference.iter().map(|x| json::bytes(x)).collect()))]));
        }
        hist.addn("history-check-calls-on-one-thread", inputs.len() as i64);
    }
    if samples.is_empty() {
        samples.push(json::s("(see replay files / shards)"));
    }
    ctx.shards.extend(sh.finish());
    for (k, v) in &lx.kinds {
        hist.addn(k, *v);
    }
    ctx.meta.push(("lexer_cases", J::N(lx.sh.total as i64)));
    ctx.meta.push(("lexer_longest_input", J::N(lx.max_len as i64)));
    ctx.shards.extend(lx.sh.finish());
    if c07 {
        ctx.add_chars();
    }
    ctx.impl_failures.extend(fails);
    ctx.meta.push(("evaluations", J::N(evaluations)));
    ctx.meta.push(("distinct_nontrivial", J::N(distinct.len() as i64)));
    ctx.meta.push(("rule", json::s(format!(
        "byte strings: exhaustive truncation of small documents (alone and as an extension); every sequence of up to {} markup tokens out of 14 (start / end / empty tags of two names, text, comment, CDATA, an unquoted attribute, a duplicated attribute, an invalid UTF-8 byte, an end tag with a blank before its name), alone and (up to 3 tokens) as an extension; {} generated inputs = valid serialisations of random DOMs with 0-3 structured damages (unquoted / duplicated / value-less attributes, invalid UTF-8 in name / key / text / CDATA / comment / value, mismatched / extra / missing end tags, truncation, blanks inside end tags, an invalid byte in place of a U+FFFD, markup noise, bit flips, byte inserts/deletes, quote damage, trailing content), 5% raw random bytes, 5% nesting up to depth 200; a third as (document, extension) pairs; {}; non-trivial = some document of at least 4 bytes, distinct by bytes",
        max_len, n, if c07 { "reader configuration drawn per case from trim_text x trim_text_end alone x trim_text_start alone x expand_empty_elements x check_end_names x allow_unmatched_ends x BufReader capacity {slice,1,2,3,7,64,8192}, a sixth of the readers handed over after the caller has read 1-3 events itself; every Ok result is rendered" } else { "default reader configuration (a quarter through BufReaders of capacity 1..8192)" }))));
    ctx.meta.push(("exhaustive_part", json::s(format!("all sequences of 1..{} tokens over the 14-token markup alphabet (and of 1..3 tokens as an extension of <a><b x=\"1\"/>t</a>); all truncations of the small documents", max_len))));
    ctx.meta.push(("histogram", hist.json()));
    ctx.meta.push(("samples", J::A(samples)));
}
