//! re-parser of the rendered source text into struct definitions (validated by round trip)
use crate::emit::Interner;
use crate::json::{self, J};

#[derive(Clone, Debug, PartialEq)]
pub struct PField {
    pub rename: Option<String>,
    pub ident: String,
    /// 0 plain, 1 Option<>, 2 Vec<>, 3 Option<Vec<>>
    pub wrap: u8,
    /// None = String
    pub ty: Option<String>,
}
#[derive(Clone, Debug, PartialEq)]
pub struct PStruct {
    pub derive: Option<String>,
    pub name: String,
    pub fields: Vec<PField>,
}

pub fn parse_output(text: &str) -> Result<Vec<PStruct>, String> {
    let mut out = vec![];
    let mut lines = text.split('\n').peekable();
    loop {
        let Some(l) = lines.next() else { break };
        if l.is_empty() && lines.peek().is_none() {
            break;
        }
        let mut l = l;
        let mut derive = None;
        if let Some(r) = l.strip_prefix("#[derive(") {
            let d = r.strip_suffix(")]").ok_or("derive line")?;
            derive = Some(d.to_string());
            l = lines.next().ok_or("eof after derive")?;
        }
        let name = l.strip_prefix("pub struct ").and_then(|r| r.strip_suffix(" {")).ok_or_else(|| format!("struct header: {:?}", l))?;
        let mut fields = vec![];
        loop {
            let l = lines.next().ok_or("eof in struct")?;
            if l == "}" {
                break;
            }
            let mut l = l;
            let mut rename = None;
            if let Some(r) = l.strip_prefix("    #[serde(rename = \"") {
                rename = Some(r.strip_suffix("\")]").ok_or("rename line")?.to_string());
                l = lines.next().ok_or("eof after rename")?;
            }
            let r = l.strip_prefix("    pub ").and_then(|r| r.strip_suffix(",")).ok_or_else(|| format!("field line: {:?}", l))?;
            let (ident, ty) = r.split_once(": ").ok_or("field colon")?;
            let (wrap, inner) = if let Some(x) = ty.strip_prefix("Option<Vec<").and_then(|x| x.strip_suffix(">>")) {
                (3, x)
            } else if let Some(x) = ty.strip_prefix("Option<").and_then(|x| x.strip_suffix(">")) {
                (1, x)
            } else if let Some(x) = ty.strip_prefix("Vec<").and_then(|x| x.strip_suffix(">")) {
                (2, x)
            } else {
                (0, ty)
            };
            fields.push(PField { rename, ident: ident.to_string(), wrap, ty: if inner == "String" { None } else { Some(inner.to_string()) } });
        }
        if lines.next() != Some("") {
            return Err("missing blank line after struct".into());
        }
        out.push(PStruct { derive, name: name.to_string(), fields });
    }
    if print_output(&out) != text {
        return Err("round trip print(parse(text)) != text".into());
    }
    Ok(out)
}

pub fn print_output(ps: &[PStruct]) -> String {
    let mut o = String::new();
    for p in ps {
        if let Some(d) = &p.derive {
            o.push_str(&format!("#[derive({})]\n", d));
        }
        o.push_str(&format!("pub struct {} {{\n", p.name));
        for f in &p.fields {
            if let Some(r) = &f.rename {
                o.push_str(&format!("    #[serde(rename = \"{}\")]\n", r));
            }
            let inner = f.ty.clone().unwrap_or("String".to_string());
            let ty = match f.wrap {
                0 => inner,
                1 => format!("Option<{}>", inner),
                2 => format!("Vec<{}>", inner),
                _ => format!("Option<Vec<{}>>", inner),
            };
            o.push_str(&format!("    pub {}: {},\n", f.ident, ty));
        }
        o.push_str("}\n\n");
    }
    o
}

pub fn coq_pstructs(ps: &[PStruct], it: &mut Interner) -> String {
    let v: Vec<String> = ps
        .iter()
        .map(|p| {
            let fs: Vec<String> = p
                .fields
                .iter()
                .map(|f| {
                    format!(
                        "PF {} {} {} {}",
                        match &f.rename {
                            Some(r) => format!("(Some {})", it.get(r)),
                            None => "None".into(),
                        },
                        it.get(&f.ident),
                        ["WPlain", "WOption", "WVec", "WOptionVec"][f.wrap as usize],
                        match &f.ty {
                            Some(t) => format!("(TyStruct {})", it.get(t)),
                            None => "TyString".into(),
                        }
                    )
                })
                .collect();
            format!(
                "PS {} {} [{}]",
                match &p.derive {
                    Some(d) => format!("(Some {})", it.get(d)),
                    None => "None".into(),
                },
                it.get(&p.name),
                fs.join("; ")
            )
        })
        .collect();
    format!("[{}]", v.join("; "))
}
#[allow(dead_code)]
pub fn pstructs_json(ps: &[PStruct]) -> J {
    J::A(ps.iter().map(|p| json::s(format!("{:?}", p))).collect())
}
