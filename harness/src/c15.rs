//! C15: merge_necessity — exhaustive pairs of duplicate-free tagged lists over a small
//! alphabet, random longer pairs (u8 and String items), and a stream with duplicates
//! (outside the property's hypothesis; model-vs-implementation only).
use crate::emit::{coq_list, coq_str, Eval, Hist, Shards};
use crate::json::{self, J};
use crate::rng::Rng;
use crate::Ctx;
use xml_schema_generator::{merge_necessity, Necessity};

type L = Vec<(bool, u8)>; // (mandatory, item)

fn all_lists(k: u8) -> Vec<L> {
    // all duplicate-free sequences over 1..=k with every tag assignment
    fn go(k: u8, cur: &mut L, out: &mut Vec<L>) {
        out.push(cur.clone());
        for x in 1..=k {
            if cur.iter().any(|(_, y)| *y == x) {
                continue;
            }
            for m in [false, true] {
                cur.push((m, x));
                go(k, cur, out);
                cur.pop();
            }
        }
    }
    let mut out = vec![];
    go(k, &mut vec![], &mut out);
    out
}

fn to_nec<T: Clone>(l: &[(bool, T)]) -> Vec<Necessity<T>> {
    l.iter()
        .map(|(m, x)| if *m { Necessity::Mandatory(x.clone()) } else { Necessity::Optional(x.clone()) })
        .collect()
}
fn from_nec<T: Clone>(l: &[Necessity<T>]) -> Vec<(bool, T)> {
    l.iter()
        .map(|n| match n {
            Necessity::Mandatory(x) => (true, x.clone()),
            Necessity::Optional(x) => (false, x.clone()),
        })
        .collect()
}
fn coq_tag(m: bool) -> &'static str {
    if m {
        "Mand"
    } else {
        "Opt"
    }
}
fn jl<T: ToString>(l: &[(bool, T)]) -> J {
    J::A(l.iter().map(|(m, x)| json::s(format!("{}{}", if *m { "M" } else { "O" }, x.to_string()))).collect())
}

pub fn run(ctx: &mut Ctx) {
    let evals = |eqb: &str| {
        vec![
            Eval { label: "corr", func: format!("c15_corr {}", eqb), role: "corr" },
            Eval { label: "oracle", func: format!("c15_oracle {}", eqb), role: "oracle" },
            Eval { label: "hyp", func: format!("c15_in_hyp {}", eqb), role: "hyp" },
        ]
    };
    let imports = "From XSG.Model Require Import Strings Necessity.\nFrom XSG.Corr Require Import Common C15Corr.\nFrom Coq Require Import String.";
    let mut hist = Hist::default();
    let mut samples: Vec<J> = vec![];
    let mut distinct = std::collections::BTreeSet::new();
    let mut evaluations = 0i64;

    // --- u8 items
    let mut sh = Shards::new(&ctx.out, "u8", imports, "@c15case N", evals("N.eqb"), "fun c => merge_necessity N.eqb (c_v c) (c_o c)", 4000);
    let mut add_u8 = |sh: &mut Shards, v: &L, o: &L, kind: &str, hist: &mut Hist, samples: &mut Vec<J>| {
        // logging on for every other pair: the result may not depend on the log level
        log::set_max_level(if (v.len() + 2 * o.len()) % 2 == 0 { log::LevelFilter::Trace } else { log::LevelFilter::Off });
        let r = from_nec(&merge_necessity(to_nec(v), to_nec(o)));
        let t = |l: &L| coq_list(l, |(m, x)| format!("({},{})", coq_tag(*m), x));
        let d = json::obj(vec![("kind", json::s(kind)), ("item_type", json::s("u8")), ("vec", jl(v)), ("other", jl(o)), ("impl", jl(&r))]);
        if samples.len() < 4 && v.len() >= 2 && o.len() >= 2 {
            samples.push(d.clone());
        }
        sh.push(format!("Build_c15case {} {} {}", t(v), t(o), t(&r)), d);
        hist.add(kind);
        hist.add(&format!("len_vec={}", v.len().min(9)));
        hist.add(&format!("len_other={}", o.len().min(9)));
    };
    let k = if ctx.thorough { 4 } else { 3 };
    let lists = all_lists(k);
    let stride = if ctx.thorough { 1 } else { 1 };
    for (i, v) in lists.iter().enumerate() {
        for (j, o) in lists.iter().enumerate() {
            if (i * lists.len() + j) % stride != 0 {
                continue;
            }
            add_u8(&mut sh, v, o, "exhaustive-nodup", &mut hist, &mut samples);
            evaluations += 1;
            if !v.is_empty() && !o.is_empty() {
                distinct.insert(format!("{:?}|{:?}", v, o));
            }
        }
    }
    let n_rand = if ctx.thorough { 50000 } else { 3000 };
    let mut rng = ctx.rng.fork();
    for i in 0..n_rand {
        let dup = i % 4 == 3; // a quarter of the random stream has duplicates
        let gen = |rng: &mut Rng| -> L {
            let n = rng.below(9);
            let mut l: L = vec![];
            for _ in 0..n {
                let x = rng.range(1, 8) as u8;
                if !dup && l.iter().any(|(_, y)| *y == x) {
                    continue;
                }
                l.push((rng.chance(1, 2), x));
            }
            l
        };
        let v = gen(&mut rng);
        let o = gen(&mut rng);
        add_u8(&mut sh, &v, &o, if dup { "random-with-duplicates" } else { "random-nodup" }, &mut hist, &mut samples);
        evaluations += 1;
        if !v.is_empty() && !o.is_empty() {
            distinct.insert(format!("{:?}|{:?}", v, o));
        }
    }
    // long lists: anything keyed on a length or an index (a 64-bit mask, the small-slice path of a
    // sort) shows only here
    let n_long = if ctx.thorough { 3000 } else { 300 };
    for i in 0..n_long {
        let gen = |rng: &mut Rng, lo: usize, hi: usize| -> L {
            let n = rng.range(lo, hi);
            let mut l: L = vec![];
            while l.len() < n {
                let x = rng.below(250) as u8;
                if l.iter().any(|(_, y)| *y == x) {
                    continue;
                }
                l.push((rng.chance(1, 2), x));
            }
            l
        };
        let (v, o) = match i % 3 {
            0 => (gen(&mut rng, 1, 6), gen(&mut rng, 60, 140)),
            1 => (gen(&mut rng, 20, 90), gen(&mut rng, 20, 90)),
            _ => (gen(&mut rng, 60, 140), gen(&mut rng, 0, 6)),
        };
        add_u8(&mut sh, &v, &o, "random-long-nodup", &mut hist, &mut samples);
        evaluations += 1;
        distinct.insert(format!("{:?}|{:?}", v, o));
    }
    // --- items wider than a cache line (anything that dispatches on size_of::<T>())
    #[derive(Clone, PartialEq, Debug)]
    struct Wide {
        a: [u64; 6],
        id: u8,
        b: [u64; 6],
    }
    let n_wide = if ctx.thorough { 6000 } else { 600 };
    for i in 0..n_wide {
        let gen = |rng: &mut Rng| -> L {
            let n = rng.below(8);
            let mut l: L = vec![];
            for _ in 0..n {
                let x = rng.range(1, 9) as u8;
                if l.iter().any(|(_, y)| *y == x) {
                    continue;
                }
                l.push((rng.chance(1, 2), x));
            }
            l
        };
        let (v, o) = if i < 64 { let ls = all_lists(2); (ls[i % ls.len()].clone(), ls[(i / ls.len()) % ls.len()].clone()) } else { (gen(&mut rng), gen(&mut rng)) };
        let w = |l: &L| -> Vec<(bool, Wide)> { l.iter().map(|(m, x)| (*m, Wide { a: [*x as u64; 6], id: *x, b: [7; 6] })).collect() };
        let r: L = from_nec(&merge_necessity(to_nec(&w(&v)), to_nec(&w(&o)))).into_iter().map(|(m, x)| (m, x.id)).collect();
        let t = |l: &L| coq_list(l, |(m, x)| format!("({},{})", coq_tag(*m), x));
        let d = json::obj(vec![("kind", json::s("wide-items")), ("item_type", json::s("a 104-byte struct compared field by field")), ("vec", jl(&v)), ("other", jl(&o)), ("impl", jl(&r))]);
        sh.push(format!("Build_c15case {} {} {}", t(&v), t(&o), t(&r)), d);
        hist.add("wide-items-104-bytes");
        evaluations += 1;
    }
    let mut files = sh.finish();

    // --- items whose equality is coarser than identity: a key with a payload; the merged list
    //     keeps the first list's item where both lists have the key
    {
        #[derive(Clone, Debug)]
        struct Keyed {
            key: u8,
            origin: u8,
        }
        impl PartialEq for Keyed {
            fn eq(&self, o: &Keyed) -> bool {
                self.key == o.key
            }
        }
        let kevals = vec![
            Eval { label: "corr", func: "c15_corr2 key_eqb pair_eqb".into(), role: "corr" },
            Eval { label: "oracle", func: "c15_oracle key_eqb".into(), role: "oracle" },
            Eval { label: "hyp", func: "c15_in_hyp key_eqb".into(), role: "hyp" },
        ];
        let mut sh = Shards::new(&ctx.out, "keyed", imports, "@c15case (N * N)", kevals, "fun c => merge_necessity key_eqb (c_v c) (c_o c)", 4000);
        let n_keyed = if ctx.thorough { 20000 } else { 1500 };
        let ls = all_lists(2);
        for i in 0..n_keyed {
            let gen = |rng: &mut Rng| -> L {
                let n = rng.below(7);
                let mut l: L = vec![];
                for _ in 0..n {
                    let x = rng.range(1, 7) as u8;
                    if l.iter().any(|(_, y)| *y == x) {
                        continue;
                    }
                    l.push((rng.chance(1, 2), x));
                }
                l
            };
            let (v, o) = if i < ls.len() * ls.len() { (ls[i % ls.len()].clone(), ls[i / ls.len()].clone()) } else { (gen(&mut rng), gen(&mut rng)) };
            let kv = |l: &L, origin: u8| -> Vec<(bool, Keyed)> { l.iter().map(|(m, x)| (*m, Keyed { key: *x, origin })).collect() };
            let r = from_nec(&merge_necessity(to_nec(&kv(&v, 1)), to_nec(&kv(&o, 2))));
            let t = |l: &L, origin: u8| coq_list(l, |(m, x)| format!("({},({},{}))", coq_tag(*m), x, origin));
            let rt = coq_list(&r, |(m, x)| format!("({},({},{}))", coq_tag(*m), x.key, x.origin));
            let rj = J::A(r.iter().map(|(m, x)| json::s(format!("{}{} (from list {})", if *m { "M" } else { "O" }, x.key, x.origin))).collect());
            let d = json::obj(vec![("kind", json::s("keyed-items")), ("item_type", json::s("a key with a payload, equal when the keys are equal")), ("vec", jl(&v)), ("other", jl(&o)), ("impl", rj)]);
            sh.push(format!("Build_c15case {} {} {}", t(&v, 1), t(&o, 2), rt), d);
            hist.add("keyed-items-coarse-equality");
            evaluations += 1;
        }
        files.extend(sh.finish());
    }

    // --- String items (the instance the parser uses)
    let pool = ["a", "b", "id", "xmlns:p", "p:id", "Ид", "type", "x-y"];
    let mut sh = Shards::new(&ctx.out, "string", imports, "@c15case str", evals("str_eqb"), "fun c => merge_necessity str_eqb (c_v c) (c_o c)", 4000);
    let n_str = if ctx.thorough { 20000 } else { 1500 };
    for _ in 0..n_str {
        let gen = |rng: &mut Rng| -> Vec<(bool, String)> {
            let n = rng.below(7);
            let mut l: Vec<(bool, String)> = vec![];
            for _ in 0..n {
                let x = rng.pick(&pool).to_string();
                if l.iter().any(|(_, y)| *y == x) {
                    continue;
                }
                l.push((rng.chance(1, 2), x));
            }
            l
        };
        let v = gen(&mut rng);
        let o = gen(&mut rng);
        log::set_max_level(if (v.len() + 2 * o.len()) % 2 == 0 { log::LevelFilter::Trace } else { log::LevelFilter::Off });
        let r = from_nec(&merge_necessity(to_nec(&v), to_nec(&o)));
        let t = |l: &Vec<(bool, String)>| coq_list(l, |(m, x)| format!("({},{})", coq_tag(*m), coq_str(x)));
        let d = json::obj(vec![("kind", json::s("random-nodup-string")), ("item_type", json::s("String")), ("vec", jl(&v)), ("other", jl(&o)), ("impl", jl(&r))]);
        if samples.len() < 6 && v.len() >= 2 && o.len() >= 2 {
            samples.push(d.clone());
        }
        sh.push(format!("Build_c15case {} {} {}", t(&v), t(&o), t(&r)), d);
        hist.add("random-nodup-string");
        evaluations += 1;
        if !v.is_empty() && !o.is_empty() {
            distinct.insert(format!("s{:?}|{:?}", v, o));
        }
    }
    files.extend(sh.finish());

    ctx.meta.push(("evaluations", J::N(evaluations)));
    ctx.meta.push(("distinct_nontrivial", J::N(distinct.len() as i64)));
    ctx.meta.push(("rule", json::s(format!(
        "all {n}x{n} pairs of duplicate-free tagged lists over an alphabet of {k} u8 items (exhaustive), {r} random pairs over 8 items with length <= 8 (a quarter with duplicates, outside the hypothesis: model-vs-implementation only), {s} random pairs of String items, pairs of 104-byte items and of keyed items whose equality ignores a payload (which of two equal items survives is compared); non-trivial = both lists non-empty, distinct by (vec, other)",
        n = lists.len(), k = k, r = n_rand, s = n_str))));
    ctx.meta.push(("exhaustive_part", json::s(format!("all pairs over alphabet size {}", k))));
    ctx.meta.push(("histogram", hist.json()));
    ctx.meta.push(("samples", J::A(samples)));
    ctx.shards.extend(files);
}
