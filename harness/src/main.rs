//! xsgh — runs the real xml_schema_generator (path dependency on /repo, rebuilt from the
//! working tree) on generated inputs and writes Coq case files in which the model is
//! evaluated on the same inputs.
mod batch;
mod bytesgen;
mod c15;
mod cli;
mod chars;
mod core;
mod docprops;
mod docs;
mod xml;
mod emit;
mod json;
mod lex;
mod ops;
mod outp;
mod rng;

use json::J;
use std::path::PathBuf;

pub struct Ctx {
    pub prop: String,
    pub thorough: bool,
    pub seed: u64,
    pub out: PathBuf,
    pub rng: rng::Rng,
    pub meta: Vec<(&'static str, J)>,
    pub args: Vec<String>,
    /// failures observed on the implementation by the harness itself
    pub impl_failures: Vec<J>,
    pub shards: Vec<J>,
    pub verif: String,
}
impl Ctx {
    /// exhaustive comparison of the model's character functions with std over Sigma
    pub fn add_chars(&mut self) {
        let (files, fails, _) = chars::emit(&self.out, &self.verif);
        self.shards.extend(files);
        self.impl_failures.extend(fails);
    }
}

/// a `log` backend that accepts everything and prints nothing: with it installed the arguments of
/// the library's `debug!` / `trace!` statements are evaluated whenever the level allows it; the
/// level is switched per case (build_case), because nothing the library computes may depend on it
struct NullLog;
impl log::Log for NullLog {
    fn enabled(&self, _: &log::Metadata) -> bool {
        true
    }
    fn log(&self, r: &log::Record) {
        // formatting the arguments is what evaluates them
        let _ = format!("{}", r.args());
    }
    fn flush(&self) {}
}
static NULL_LOG: NullLog = NullLog;

fn main() {
    let _ = log::set_logger(&NULL_LOG);
    log::set_max_level(log::LevelFilter::Off);
    let args: Vec<String> = std::env::args().collect();
    if args.len() < 2 {
        eprintln!("usage: xsgh <property|tool> [--tier quick|thorough] [--seed N] [--out DIR] ...");
        std::process::exit(2);
    }
    let prop = args[1].clone();
    let mut thorough = false;
    let mut seed = 1u64;
    let mut out = PathBuf::from("work");
    let mut rest = vec![];
    let mut i = 2;
    while i < args.len() {
        match args[i].as_str() {
            "--tier" => {
                thorough = args[i + 1] == "thorough";
                i += 2;
            }
            "--seed" => {
                seed = args[i + 1].parse().unwrap_or(1);
                i += 2;
            }
            "--out" => {
                out = PathBuf::from(&args[i + 1]);
                i += 2;
            }
            _ => {
                rest.push(args[i].clone());
                i += 1;
            }
        }
    }
    std::fs::create_dir_all(&out).unwrap();
    if std::env::var("XSG_PANIC_TRACE").is_err() {
        std::panic::set_hook(Box::new(|_| {})); // panics of the library are outcomes, not noise
    }
    let mut ctx = Ctx { prop: prop.clone(), thorough, seed, out: out.clone(), rng: rng::Rng::new(seed), meta: vec![], args: rest, impl_failures: vec![], shards: vec![], verif: std::env::var("XSG_VERIF").unwrap_or("/verif".to_string()) };
    match prop.as_str() {
        "C12" => cli::run(&mut ctx),
        "C15" => c15::run(&mut ctx),
        "C16" => ops::run(&mut ctx),
        "C01" => docprops::c01(&mut ctx),
        "C02" => batch::run(&mut ctx, false),
        "C13" => batch::run(&mut ctx, true),
        "C03" => docprops::c03(&mut ctx),
        "C04" => docprops::c04(&mut ctx),
        "C05" => docprops::c05(&mut ctx),
        "C06" => docprops::c06(&mut ctx),
        "C07" => bytesgen::run(&mut ctx, true),
        "C08" => bytesgen::run(&mut ctx, false),
        "C09" => docprops::c09(&mut ctx),
        "C11" => docprops::c11(&mut ctx),
        "render-proc" => {
            docprops::render_proc(&ctx.args);
            return;
        }
        "parse-plain" => {
            bytesgen::parse_plain(&ctx.args);
            return;
        }
        "C10" => docprops::c10(&mut ctx),
        "C14" => docprops::c14(&mut ctx),
        "unicode-table" => {
            print!("{}", chars::table_source());
            return;
        }
        _ => {
            eprintln!("unknown property or tool {}", prop);
            std::process::exit(2);
        }
    }
    let mut kv = vec![("property", json::s(&prop)), ("tier", json::s(if thorough { "thorough" } else { "quick" })), ("seed", J::N(seed as i64))];
    kv.extend(ctx.meta.into_iter());
    kv.push(("observation_lost", J::N(core::OBSERVATION_LOST.load(std::sync::atomic::Ordering::Relaxed) as i64)));
    kv.push(("impl_failures", J::A(ctx.impl_failures)));
    kv.push(("shards", J::A(ctx.shards)));
    std::fs::write(out.join("meta.json"), json::obj(kv).to_string()).unwrap();
}
