//! writing Coq case files (shards) and the meta file read by bin/check
use crate::json::{self, J};
use std::collections::BTreeMap;
use std::fmt::Write as _;
use std::fs;
use std::path::{Path, PathBuf};

/// a Rust string as a Gallina term of type `str` (list of code points)
pub fn coq_str(x: &str) -> String {
    let safe = x
        .chars()
        .all(|c| (c as u32) >= 0x20 && (c as u32) < 0x7f && c != '"');
    if safe {
        format!("(s \"{}\")", x)
    } else {
        let mut o = String::from("[");
        for (i, c) in x.chars().enumerate() {
            if i > 0 {
                o.push(';');
            }
            write!(o, "{}", c as u32).unwrap();
        }
        o.push_str("]%N");
        o
    }
}
pub fn coq_list<T, F: FnMut(&T) -> String>(v: &[T], mut f: F) -> String {
    let mut o = String::from("[");
    for (i, x) in v.iter().enumerate() {
        if i > 0 {
            o.push_str("; ");
        }
        o.push_str(&f(x));
    }
    o.push(']');
    o
}
pub fn coq_bool(b: bool) -> &'static str {
    if b {
        "true"
    } else {
        "false"
    }
}
pub fn coq_opt<T, F: Fn(&T) -> String>(v: &Option<T>, f: F) -> String {
    match v {
        Some(x) => format!("(Some {})", f(x)),
        None => "None".to_string(),
    }
}

/// name interning: each distinct string becomes one `Definition nK := ...` per shard
#[derive(Default)]
pub struct Interner {
    map: BTreeMap<String, usize>,
    order: Vec<String>,
}
impl Interner {
    pub fn get(&mut self, x: &str) -> String {
        if let Some(i) = self.map.get(x) {
            return format!("n{}", i);
        }
        let i = self.order.len();
        self.map.insert(x.to_string(), i);
        self.order.push(x.to_string());
        format!("n{}", i)
    }
    pub fn defs(&self) -> String {
        let mut o = String::new();
        for (i, x) in self.order.iter().enumerate() {
            writeln!(o, "Definition n{} : str := {}.", i, coq_str(x)).unwrap();
        }
        o
    }
}

pub struct Eval {
    pub label: &'static str,
    /// Gallina function `case -> bool`
    pub func: String,
    /// "corr" (model vs implementation), "oracle" (property on the implementation's
    /// output), or "hyp" (case is inside the property's hypotheses; informational)
    pub role: &'static str,
}

pub struct Shards {
    dir: PathBuf,
    group: String,
    imports: String,
    case_ty: String,
    evals: Vec<Eval>,
    show: String,
    per_shard: usize,
    cur: Vec<(String, J)>,
    files: Vec<J>,
    pub total: usize,
    pub intern: Interner,
}
impl Shards {
    /// `show`: Gallina function `case -> _` whose value is printed for a failing case
    pub fn new(dir: &Path, group: &str, imports: &str, case_ty: &str, evals: Vec<Eval>, show: &str, per_shard: usize) -> Shards {
        fs::create_dir_all(dir).unwrap();
        Shards {
            dir: dir.to_path_buf(),
            group: group.to_string(),
            imports: imports.to_string(),
            case_ty: case_ty.to_string(),
            evals,
            show: show.to_string(),
            per_shard,
            cur: vec![],
            files: vec![],
            total: 0,
            intern: Interner::default(),
        }
    }
    pub fn push(&mut self, term: String, descr: J) {
        self.cur.push((term, descr));
        self.total += 1;
        if self.cur.len() >= self.per_shard {
            self.flush();
        }
    }
    pub fn flush(&mut self) {
        if self.cur.is_empty() {
            return;
        }
        let k = self.files.len();
        let base = format!("{}_{:03}", self.group, k);
        let mut v = String::new();
        writeln!(v, "{}", self.imports).unwrap();
        writeln!(v, "Open Scope N_scope. Open Scope string_scope. Open Scope list_scope.").unwrap();
        v.push_str(&self.intern.defs());
        writeln!(v, "Definition cases : list ({}) := [", self.case_ty).unwrap();
        let mut descr = String::new();
        for (i, (t, d)) in self.cur.iter().enumerate() {
            writeln!(v, "(*#{}*) {}{}", i, t, if i + 1 < self.cur.len() { ";" } else { "" }).unwrap();
            writeln!(descr, "{}", d.to_string()).unwrap();
        }
        writeln!(v, "].").unwrap();
        for e in &self.evals {
            if e.role == "hyp" {
                writeln!(v, "Eval vm_compute in (\"{}\", [N.of_nat (List.length (filter ({}) cases))]).", e.label, e.func).unwrap();
            } else {
                writeln!(v, "Eval vm_compute in (\"{}\", failing ({}) cases).", e.label, e.func).unwrap();
            }
        }
        fs::write(self.dir.join(format!("{}.v", base)), v).unwrap();
        fs::write(self.dir.join(format!("{}.cases.jsonl", base)), descr).unwrap();
        self.files.push(json::obj(vec![
            ("file", json::s(format!("{}.v", base))),
            ("n", J::N(self.cur.len() as i64)),
            ("group", json::s(&self.group)),
            ("show", json::s(&self.show)),
            (
                "evals",
                J::A(self
                    .evals
                    .iter()
                    .map(|e| json::obj(vec![("label", json::s(e.label)), ("role", json::s(e.role))]))
                    .collect()),
            ),
        ]));
        self.cur.clear();
        self.intern = Interner::default();
    }
    pub fn finish(mut self) -> Vec<J> {
        self.flush();
        self.files
    }
}

/// histogram helper
#[derive(Default)]
pub struct Hist(pub BTreeMap<String, i64>);
impl Hist {
    pub fn add(&mut self, k: &str) {
        *self.0.entry(k.to_string()).or_insert(0) += 1;
    }
    pub fn addn(&mut self, k: &str, n: i64) {
        *self.0.entry(k.to_string()).or_insert(0) += n;
    }
    pub fn json(&self) -> J {
        J::O(self.0.iter().map(|(k, v)| (k.clone(), J::N(*v))).collect())
    }
}
