//! Correspondence of the byte-level lexer model (coq/Model/Lexer.v) with quick_xml's reader:
//! the same bytes are read by `quick_xml::Reader` in its default configuration from the slice and
//! the recorded events (kinds, names, attribute keys, validity of texts, error kind and
//! `buffer_position()`) are put next to the bytes; Corr/LexCorr.v evaluates `lex` on them.
use crate::core::{record, AttrRes, ErrTab, Ev, RCfg, Res};
use crate::emit::{Eval, Interner, Shards};
use crate::json::{self, J};
use crate::rng::Rng;
use std::path::Path;

pub const LEX_IMPORTS: &str = "From XSG.Model Require Import Strings Necessity Element Parser Lexer.\nFrom XSG.Corr Require Import Common CoreCorr LexCorr.\nFrom Coq Require Import String.";

/// the kind of a `quick_xml::Error` (from its Debug text) as numbered in Model/Lexer.v
pub fn err_code(s: &str) -> u64 {
    let table: [(&str, u64); 9] = [
        ("Syntax(UnclosedTag)", 1),
        ("Syntax(UnclosedPIOrXmlDecl)", 2),
        ("Syntax(UnclosedComment)", 3),
        ("Syntax(UnclosedCData)", 4),
        ("Syntax(UnclosedDoctype)", 5),
        ("Syntax(InvalidBangMarkup)", 6),
        ("IllFormed(MissingDoctypeName)", 7),
        ("IllFormed(MismatchedEndTag", 8),
        ("IllFormed(UnmatchedEndTag", 9),
    ];
    for (p, c) in table {
        if s.starts_with(p) {
            return c;
        }
    }
    99
}
/// the kind of an `AttrError` (from its Display text)
pub fn attr_code(s: &str) -> u64 {
    let rest = match s.find(": ") {
        Some(i) if s.starts_with("position ") => &s[i + 2..],
        _ => return 98,
    };
    if rest.starts_with("attribute key must be directly followed by") {
        10
    } else if rest.starts_with("`=` must be followed by an attribute value") {
        11
    } else if rest.starts_with("attribute value must be enclosed in") {
        12
    } else if rest.starts_with("missing closing quote") {
        13
    } else if rest.starts_with("duplicated attribute") {
        14
    } else {
        98
    }
}

fn res_str(r: &Res<String>, it: &mut Interner) -> String {
    match r {
        Res::Ok(s) => format!("(ROk {})", it.get(s)),
        Res::Bad(_) => "(RBad 0)".into(),
    }
}
fn canon_event(e: &Ev, tab: &ErrTab, it: &mut Interner) -> String {
    let attrs = |a: &Vec<AttrRes>, it: &mut Interner| -> String {
        let v: Vec<String> = a
            .iter()
            .map(|x| match x {
                AttrRes::Ok(k) => format!("AOk {}", res_str(k, it)),
                AttrRes::Err(i) => format!("AErr {}", attr_code(&tab.0[*i])),
            })
            .collect();
        format!("[{}]", v.join("; "))
    };
    match e {
        Ev::Start(n, a) => format!("EStart {} {}", res_str(n, it), attrs(a, it)),
        Ev::Empty(n, a) => format!("EEmpty {} {}", res_str(n, it), attrs(a, it)),
        Ev::End => "EEnd".into(),
        Ev::Text(Res::Ok(_)) => "EText (ROk tt)".into(),
        Ev::Text(Res::Bad(_)) => "EText (RBad 0)".into(),
        Ev::CData(Res::Ok(_)) => "ECData (ROk tt)".into(),
        Ev::CData(Res::Bad(_)) => "ECData (RBad 0)".into(),
        Ev::Misc => "EMisc".into(),
        Ev::Err(p, i) => format!("EErr {} {}", p, err_code(&tab.0[*i])),
    }
}

pub struct LexShards {
    pub sh: Shards,
    seen: std::collections::HashSet<Vec<u8>>,
    pub kinds: std::collections::BTreeMap<String, i64>,
    pub max_len: usize,
}
impl LexShards {
    pub fn new(out: &Path, thorough: bool) -> LexShards {
        let evals = vec![Eval { label: "lex", func: "ev_lex".into(), role: "corr" }, Eval { label: "lexexpand", func: "ev_lex_expand".into(), role: "corr" }, Eval { label: "lexbuf", func: "ev_lex_buf".into(), role: "corr" }, Eval { label: "lexstream", func: "or_stream".into(), role: "oracle" }];
        LexShards {
            sh: Shards::new(out, "lex", LEX_IMPORTS, "lexcase", evals, "show_lex", if thorough { 1500 } else { 400 }),
            seen: Default::default(),
            kinds: Default::default(),
            max_len: 0,
        }
    }
    /// one byte string, read by the real reader with the default configuration from the slice
    pub fn add(&mut self, bytes: &[u8], kind: &str) {
        if bytes.len() > 700 || !self.seen.insert(bytes.to_vec()) {
            return;
        }
        let mut tab = ErrTab::default();
        let evs = record(bytes, &RCfg::default(), &mut tab);
        // the same bytes with expand_empty_elements, and through a BufReader of a small capacity
        // (a byte-order mark is only recognised when the first fill_buf returns all three bytes)
        let mut tab_x = ErrTab::default();
        let evs_x = record(bytes, &RCfg { expand_empty: true, ..RCfg::default() }, &mut tab_x);
        let caps = [1usize, 2, 3, 5, 7, 64];
        let mut cap = caps[(bytes.len() + bytes.iter().map(|b| *b as usize).sum::<usize>()) % caps.len()];
        if cap < 3 && bytes.starts_with(&[0xEF, 0xBB]) {
            cap = 3;
        }
        let mut tab_b = ErrTab::default();
        let evs_b = record(bytes, &RCfg { bufcap: cap, ..RCfg::default() }, &mut tab_b);
        let it = &mut self.sh.intern;
        let evs_t: Vec<String> = evs.iter().map(|e| canon_event(e, &tab, it)).collect();
        let evs_xt: Vec<String> = evs_x.iter().map(|e| canon_event(e, &tab_x, it)).collect();
        let evs_bt: Vec<String> = evs_b.iter().map(|e| canon_event(e, &tab_b, it)).collect();
        let bytes_t: Vec<String> = bytes.iter().map(|b| b.to_string()).collect();
        let term = format!("([{}], [{}], [{}], [{}])", bytes_t.join(";"), evs_t.join("; "), evs_xt.join("; "), evs_bt.join("; "));
        *self.kinds.entry(format!("lex-bufreader-capacity:{}", cap)).or_insert(0) += 1;
        let last = match evs.last() {
            Some(Ev::Err(_, i)) => format!("error:{}", err_code(&tab.0[*i])),
            _ => "no-reader-error".to_string(),
        };
        *self.kinds.entry(format!("lex-input:{}", kind)).or_insert(0) += 1;
        *self.kinds.entry(format!("lex-stream-end:{}", last)).or_insert(0) += 1;
        self.max_len = self.max_len.max(bytes.len());
        self.sh.push(term, json::obj(vec![("kind", json::s(kind)), ("bytes", json::bytes(bytes)), ("bufreader_capacity", J::N(cap as i64)), ("error_table", J::A(tab.0.iter().map(json::s).collect()))]));
    }
}

/// byte strings made of the pieces the reader's automaton distinguishes
pub fn soup(rng: &mut Rng) -> Vec<u8> {
    let pieces: [&[u8]; 44] = [
        b"<", b">", b"!", b"-", b"--", b"[", b"]", b"]]", b"?", b"/", b"=", b"'", b"\"", b" ", b"\n", b"\t", b"a", b"b", b"x", b"D", b"d",
        b"<!--", b"-->", b"<![CDATA[", b"]]>", b"<!DOCTYPE", b"<!doctype ", b"<?", b"?>", b"<?xml", b"<a", b"<a>", b"</a>", b"</a >", b"<b/>",
        b" k='1'", b" k=\"2\"", b" k = 'v'", b" j='>'", b"\xEF\xBB\xBF", b"\xFF", b"\xC3\xA9", b"\xE2\x82", b"&amp;",
    ];
    let n = 1 + rng.below(9);
    let mut b = vec![];
    for _ in 0..n {
        b.extend_from_slice(pieces[rng.below(pieces.len())]);
    }
    b
}

/// fixed inputs at the edges of the reader's automaton and of UTF-8 validation that random pieces
/// reach too rarely (bin/mutlex: a model that closes `<!--->` or accepts surrogates was not told
/// apart from the real reader before these were added)
pub fn edge_cases() -> Vec<Vec<u8>> {
    let mut v: Vec<Vec<u8>> = vec![];
    for c in ["<!-->", "<!--->", "<!---->", "<!----->", "<!-- -->", "<!--->-->", "<!-->-->", "<!-x-->", "<!- -->", "<![CDATA[]]>", "<![CDATA[]>", "<![CDATA]]>",
              "<![CDATA[]]]>", "<![cdata[x]]>", "<![]]>", "<!DOCTYPE>", "<!DOCTYPE >", "<!DOCTYPE\n\t>", "<!doctype x>", "<!DocType x>", "<!DOCTYPEx>", "<!D>", "<!DOCTYP x>",
              "<!DOCTYPE a [<!ELEMENT a (b)>]>", "<!DOCTYPE a [<x>]", "<!DOCTYPE a <<>>>", "<?>", "<??>", "<?x>", "<?x?>", "<?xml?>", "<?xml ?>", "<?xmlx?>", "<?x>?>", "<?x ?", "<>", "</>", "< >",
              "< a>", "<a/ >", "<a / >", "<a//>", "<a/>", "<a b/>", "<a =\"1\">", "<a ==\"1\">", "<a b=\"1\"c=\"2\">", "<a b = '1' >", "<a b='1'/>", "<a b=>", "<a b= >", "<a b='1>", "<a b=\"1'>",
              "<a b='>'>", "<a b=\">\"/>", "<a b c='1'>", "<a b ='1' b= '2'>", "<a 'b'='1'>", "<a b=''>", "<a\tb='1'\nc='2'\r>", "<a></a >", "<a></a\n>", "<a></ a>", "<a></a b='>'>", "<a></a x>",
              "<a></A>", "<a></>", "<a/></a>", "x", " ", "x<", "<a>x", "]]>", "-->", "?>"] {
        v.push(c.as_bytes().to_vec());
        v.push(format!("<r>{}</r>", c).into_bytes());
        v.push(format!("{} -->]]>?></r>", c).into_bytes());
    }
    let seqs: [&[u8]; 22] = [
        b"\xED\xA0\x80", b"\xED\xBF\xBF", b"\xED\x9F\xBF", b"\xEE\x80\x80", b"\xE0\x80\x80", b"\xE0\x9F\xBF", b"\xE0\xA0\x80", b"\xC0\x80", b"\xC1\xBF", b"\xC2\x80", b"\xDF\xBF",
        b"\xF0\x80\x80\x80", b"\xF0\x8F\xBF\xBF", b"\xF0\x90\x80\x80", b"\xF4\x8F\xBF\xBF", b"\xF4\x90\x80\x80", b"\xF5\x80\x80\x80", b"\xEF\xBB\xBF", b"\xEF\xBF\xBD", b"\xE2\x82", b"\xF0\x9F\x98", b"\x80",
    ];
    for q in seqs {
        for (pre, post) in [("", ""), ("<r>", "</r>"), ("<r><", "/></r>"), ("<r ", "='1'/>"), ("<r><![CDATA[", "]]></r>"), ("<r><!--", "--></r>"), ("<r a='", "'/>"), ("<r></r", ">")] {
            let mut b = pre.as_bytes().to_vec();
            b.extend_from_slice(q);
            b.extend_from_slice(post.as_bytes());
            v.push(b);
        }
    }
    // a byte-order mark: alone, in front of a document, twice, and inside
    for d in ["", "<a/>", "\u{FEFF}<a/>", "<a>\u{FEFF}</a>", "<a", "</a>", "<!x>"] {
        let mut b = vec![0xEF, 0xBB, 0xBF];
        b.extend_from_slice(d.as_bytes());
        v.push(b);
    }
    v
}
