//! C02 / C13: every generated program is itself the object checked — the rendered source,
//! unchanged, is compiled by rustc in a scratch crate and run against its source documents
//! with quick_xml::de / serde_xml_rs.
use crate::core::*;
use crate::docs::*;
use crate::emit::{Eval, Hist, Shards};
use crate::json::{self, J};
use crate::rng::Rng;
use crate::xml::*;
use crate::Ctx;
use std::fmt::Write as _;
use std::process::Command;

/// the document with its values (attribute values and character data, unescaped): the input
/// of the deserializer model coq/Model/Deser.v
#[derive(Clone)]
enum VN {
    Elem { name: String, empty: bool, attrs: Vec<(String, String)>, kids: Vec<VN> },
    Text(String),
    CData(String),
    Misc,
}
fn coq_vn(v: &VN, it: &mut crate::emit::Interner) -> String {
    match v {
        VN::Elem { name, empty, attrs, kids } => format!(
            "VElem {} {} [{}] [{}]",
            it.get(name),
            crate::emit::coq_bool(*empty),
            attrs.iter().map(|(a, x)| format!("({}, {})", it.get(a), crate::emit::coq_str(x))).collect::<Vec<_>>().join("; "),
            kids.iter().map(|k| coq_vn(k, it)).collect::<Vec<_>>().join("; ")
        ),
        VN::Text(t) => format!("VText {}", crate::emit::coq_str(t)),
        VN::CData(t) => format!("VCData {}", crate::emit::coq_str(t)),
        VN::Misc => "VMisc".to_string(),
    }
}
/// serialise with unique value tokens; returns the text and the tokens that must be held
type Tok = (String, Option<Vec<String>>);
fn write_tok(n: &Node, rng: &mut Rng, ctr: &mut usize, toks: &mut Vec<Tok>, out: &mut String, pretty: bool, path: &mut Vec<String>, beside_elems: bool) -> VN {
    match n {
        Node::CData if beside_elems => {
            // data-oriented documents: character data beside child elements is blank; a CDATA section
            // there holds nothing or white space (quick_xml::de still delivers it: known finding K3
            // when two of them are separated by a child element)
            let c = *rng.pick(&["", " ", "\n", ""]);
            out.push_str(&format!("<![CDATA[{}]]>", c));
            VN::CData(c.to_string())
        }
        Node::Text if rng.chance(1, 12) => {
            // character data that is only white space
            let c = *rng.pick(&[" ", "\n  ", "\t"]);
            out.push_str(c);
            VN::Text(c.to_string())
        }
        Node::Text => {
            *ctr += 1;
            // (raw bytes written, unescaped content, content without surrounding whitespace)
            let (raw, content, val) = match rng.below(5) {
                0 => (format!("t{}&amp;", ctr), format!("t{}&", ctr), format!("t{}&", ctr)),
                1 => (format!(" t{} ", ctr), format!(" t{} ", ctr), format!("t{}", ctr)),
                2 => (format!("\n  t{}&lt;x\n", ctr), format!("\n  t{}<x\n", ctr), format!("t{}<x", ctr)),
                _ => (format!("t{}", ctr), format!("t{}", ctr), format!("t{}", ctr)),
            };
            out.push_str(&raw);
            toks.push((val, Some(path.clone())));
            VN::Text(content)
        }
        Node::CData if rng.chance(1, 6) => {
            // a CDATA section that holds nothing, or only white space (which is NOT trimmed)
            let c = *rng.pick(&["", "", " ", "\n"]);
            out.push_str(&format!("<![CDATA[{}]]>", c));
            // nothing to hold: the property ignores surrounding white space
            VN::CData(c.to_string())
        }
        Node::CData => {
            *ctr += 1;
            out.push_str(&format!("<![CDATA[c{}<&]]>", ctr));
            toks.push((format!("c{}<&", ctr), Some(path.clone())));
            VN::CData(format!("c{}<&", ctr))
        }
        Node::Misc => {
            out.push_str(if rng.chance(1, 2) { "<!-- c -->" } else { "<?pi d?>" });
            VN::Misc
        }
        Node::Elem { name, empty, attrs, kids } => {
            out.push('<');
            out.push_str(name);
            let mut vattrs = vec![];
            for a in attrs {
                *ctr += 1;
                let (raw, val) = if a.starts_with("xmlns") {
                    (format!("urn:u{}", ctr), format!("urn:u{}", ctr))
                } else if rng.chance(1, 4) {
                    (format!("v{}&amp;&gt;", ctr), format!("v{}&>", ctr))
                } else {
                    (format!("v{}", ctr), format!("v{}", ctr))
                };
                let q = if rng.chance(1, 2) { '"' } else { '\'' };
                // attributes may be separated by any white space, not only a blank
                let sep = *rng.pick(&[" ", " ", " ", "\t", "\n\t\t", "\r\n", "  "]);
                write!(out, "{}{}={}{}{}", sep, a, q, raw, q).unwrap();
                toks.push((val.clone(), None));
                vattrs.push((a.clone(), val));
            }
            let mut vkids = vec![];
            if *empty {
                out.push_str("/>");
            } else {
                out.push('>');
                let has_elem = kids.iter().any(|k| matches!(k, Node::Elem { .. }));
                path.push(name.clone());
                for k in kids {
                    if pretty && has_elem {
                        out.push_str("\n  ");
                        vkids.push(VN::Text("\n  ".to_string()));
                    }
                    vkids.push(write_tok(k, rng, ctr, toks, out, pretty, path, has_elem));
                }
                path.pop();
                if pretty && has_elem {
                    out.push('\n');
                    vkids.push(VN::Text("\n".to_string()));
                }
                write!(out, "</{}>", name).unwrap();
            }
            VN::Elem { name: name.clone(), empty: *empty, attrs: vattrs, kids: vkids }
        }
    }
}
fn write_doc_tok(top: &[Node], rng: &mut Rng) -> (String, Vec<Tok>, Vec<VN>) {
    let mut out = String::new();
    let mut toks = vec![];
    let mut ctr = 0;
    let mut vtop = vec![];
    let pretty = rng.chance(1, 3);
    if rng.chance(1, 3) {
        out.push_str(*rng.pick(&[
            "<?xml version=\"1.0\" encoding=\"UTF-8\"?>\n",
            "<?xml version=\"1.0\" encoding=\"utf-8\"?>\n",
            "<?xml version=\"1.0\"?>\n",
            "<?xml version='1.0' encoding='UTF-8' standalone='yes'?>\n",
            "<?xml version=\"1.0\" encoding=\"Utf-8\"?>\n",
        ]));
        vtop.push(VN::Misc);
    }
    for n in top {
        match n {
            Node::Text => {
                out.push('\n');
                vtop.push(VN::Text("\n".to_string()));
            }
            _ => vtop.push(write_tok(n, rng, &mut ctr, &mut toks, &mut out, pretty, &mut vec![], false)),
        }
    }
    (out, toks, vtop)
}

/// a damaged copy of a source document, to exercise the reject side of the deserializer model:
/// an unknown attribute / child, a removed attribute / child, a doubled child
fn mutate_doc(top: &[Node], rng: &mut Rng) -> Option<(Vec<Node>, &'static str)> {
    fn elems<'a>(n: &'a mut Node, acc: &mut Vec<*mut Node>) {
        acc.push(n as *mut Node);
        if let Node::Elem { kids, .. } = n {
            for k in kids.iter_mut() {
                if matches!(k, Node::Elem { .. }) {
                    elems(k, acc);
                }
            }
        }
    }
    let mut d: Vec<Node> = top.to_vec();
    let mut acc: Vec<*mut Node> = vec![];
    for n in d.iter_mut() {
        if matches!(n, Node::Elem { .. }) {
            elems(n, &mut acc);
        }
    }
    if acc.is_empty() {
        return None;
    }
    let target = acc[rng.below(acc.len())];
    // SAFETY: the pointers address distinct nodes of `d`, which is not moved while they are in use
    let node: &mut Node = unsafe { &mut *target };
    let kind = rng.below(5);
    if let Node::Elem { attrs, kids, empty, .. } = node {
        match kind {
            0 => {
                attrs.push("zz9".to_string());
                return Some((d, "unknown-attribute"));
            }
            1 => {
                if attrs.is_empty() {
                    return None;
                }
                let i = rng.below(attrs.len());
                attrs.remove(i);
                return Some((d, "attribute-removed"));
            }
            2 => {
                let idx: Vec<usize> = kids.iter().enumerate().filter(|(_, k)| matches!(k, Node::Elem { .. })).map(|(i, _)| i).collect();
                if idx.is_empty() {
                    return None;
                }
                let i = idx[rng.below(idx.len())];
                kids.remove(i);
                return Some((d, "child-removed"));
            }
            3 => {
                let idx: Vec<usize> = kids.iter().enumerate().filter(|(_, k)| matches!(k, Node::Elem { .. })).map(|(i, _)| i).collect();
                if idx.is_empty() {
                    return None;
                }
                let i = idx[rng.below(idx.len())];
                let c = kids[i].clone();
                kids.insert(i, c);
                return Some((d, "child-doubled"));
            }
            _ => {
                if kids.iter().any(|k| matches!(k, Node::Text | Node::CData)) {
                    return None;
                }
                *empty = false;
                kids.push(Node::Elem { name: "zz8".to_string(), empty: true, attrs: vec![], kids: vec![] });
                return Some((d, "unknown-child"));
            }
        }
    }
    None
}

/// the string literals of a `{:?}` rendering, in order, unescaped
fn debug_strings(s: &str) -> Vec<String> {
    let mut out = vec![];
    let cs: Vec<char> = s.chars().collect();
    let mut i = 0;
    while i < cs.len() {
        if cs[i] == '"' {
            i += 1;
            let mut cur = String::new();
            while i < cs.len() && cs[i] != '"' {
                if cs[i] == '\\' && i + 1 < cs.len() {
                    i += 1;
                    match cs[i] {
                        'n' => cur.push('\n'),
                        't' => cur.push('\t'),
                        'r' => cur.push('\r'),
                        '0' => cur.push('\0'),
                        'u' => {
                            // \u{XXXX}
                            let mut j = i + 1;
                            let mut hex = String::new();
                            if j < cs.len() && cs[j] == '{' {
                                j += 1;
                                while j < cs.len() && cs[j] != '}' {
                                    hex.push(cs[j]);
                                    j += 1;
                                }
                                if let Some(c) = u32::from_str_radix(&hex, 16).ok().and_then(char::from_u32) {
                                    cur.push(c);
                                }
                                i = j;
                            }
                        }
                        c => cur.push(c),
                    }
                } else {
                    cur.push(cs[i]);
                }
                i += 1;
            }
            out.push(cur);
        }
        i += 1;
    }
    out
}
/// pretty printing adds whitespace text nodes: mirror them in the DOM
fn reparse_dom_note() -> &'static str {
    "the DOM given to Coq for these cases is empty (documents enter as recorded reader events)"
}

fn local(n: &str) -> &str {
    if n.starts_with("xmlns") {
        n
    } else {
        n.rsplit(':').next().unwrap_or(n)
    }
}
fn unique_locals(v: &[String]) -> bool {
    let mut s = std::collections::HashSet::new();
    v.iter().all(|x| s.insert(local(x).to_string()))
}
fn pools(c13: bool) -> Vec<(Vec<&'static str>, Vec<&'static str>)> {
    let mut v = vec![
        (vec!["a", "b", "c", "d"], vec!["x", "y", "z"]),
        (vec!["item", "name", "id", "list", "value"], vec!["key", "lang", "ref"]),
        (vec!["a-b", "A.B2", "ab", "a_b"], vec!["a-x", "a_x", "a.x"]),
        (vec!["type", "Type", "self", "loop", "Self", "crate", "SELF"], vec!["match", "ref", "as", "impl"]),
        (vec!["Foo", "foo", "FOO", "fOO"], vec!["Bar", "bar", "BAR"]),
        (vec!["text", "text_content", "x_attr", "x", "text_1"], vec!["y", "y_attr", "textual"]),
        (vec!["Классификатор", "Ид", "Straße", "e_mail"], vec!["ИдНомер", "ß", "arrivée"]),
        (vec!["Total", "Price", "TotalPrice", "Other"], vec!["k"]),
        (vec!["string", "String", "option", "vec", "Vec", "Option"], vec!["n", "m"]),
        (vec!["serialize", "deserialize", "debug", "result", "ok", "err", "some", "none", "box", "default"], vec!["str", "u8x", "bool"]),
        (vec!["PqRs", "A", "Pq", "RsA", "PqRsA"], vec!["k2"]),
        // a name that has to be numbered next to an element that already carries that number
        (vec!["option", "option1", "Option", "option2", "Option1"], vec!["k", "v"]),
        (vec!["vec", "Vec1", "vec1", "string", "String1", "self", "Self1"], vec!["n"]),
        (vec!["row", "value", "Value", "RowValue1", "row_value", "RowValue"], vec!["id"]),
        // a separator inside a name against the same string split over two nesting levels
        (vec!["app.log", "app", "log.level", "log", "level"], vec!["value", "threshold"]),
        // <parent>_<keyword> spelled out next to the keyword itself (the keyword's identifier is qualified
        // with the parent's name)
        (vec!["order", "order_type", "type", "orderType", "game", "game_match", "match"], vec!["ref", "kind"]),
        // a container named as the plural of its items; entry under two parents next to log_entry
        (vec!["log", "entry", "audit", "log_entry", "entries"], vec!["id", "kind"]),
    ];
    // digits followed by capitals; well-known attribute names (xml:lang only for quick-xml: prefixed)
    v.push((vec!["title", "X509Data", "Sha256Digest", "IPv4Address", "h1Title", "entry"], vec!["nil", "lang", "unit"]));
    if !c13 {
        v.push((vec!["p:a", "q:b", "c", "p:d"], vec!["xmlns:p", "p:id", "id2", "xmlns:q", "q:k", "xmlns"]));
        // names with several colons; reserved prefixes
        v.push((vec!["dc:terms:title", "dc:terms", "item", "a:b:c"], vec!["lang:iso:code", "xml:lang", "xml:space", "xsi:nil", "xmlns:xsi"]));
        // attributes and children may share names with the quick-xml preset ('@' separates them)
        v.push((vec!["a", "b", "id", "type"], vec!["a", "id", "type", "b"]));
        v.push((vec!["order", "order_type", "item", "orderType"], vec!["type", "order_type", "ref"]));
    }
    v
}

/// known finding K3: an element that has child elements, only blank character data, and a CDATA
/// section among it (quick_xml::de delivers it: `$text` twice, or a text in the middle of a list)
fn k3_class(v: &VN) -> bool {
    match v {
        VN::Elem { empty, kids, .. } if !*empty => {
            let has_elem = kids.iter().any(|k| matches!(k, VN::Elem { .. }));
            let blank = kids.iter().all(|k| match k {
                VN::Text(t) | VN::CData(t) => t.trim_matches(|c| c == ' ' || c == '\t' || c == '\n' || c == '\r').is_empty(),
                _ => true,
            });
            let mut runs = 0;
            let mut in_run = false;
            for k in kids {
                match k {
                    VN::Elem { .. } => in_run = false,
                    VN::CData(_) => {
                        if !in_run {
                            runs += 1;
                            in_run = true;
                        }
                    }
                    _ => {}
                }
            }
            (has_elem && blank && runs >= 1) || kids.iter().any(k3_class)
        }
        _ => false,
    }
}
/// put 1-3 CDATA sections among the children of some element that has child elements
fn insert_cdata_beside_children(n: &mut Node, rng: &mut Rng) -> bool {
    if let Node::Elem { kids, empty, .. } = n {
        if *empty {
            return false;
        }
        let has_elem = kids.iter().any(|k| matches!(k, Node::Elem { .. }));
        if has_elem && rng.chance(1, 2) {
            for _ in 0..rng.range(1, 3) {
                let at = rng.below(kids.len() + 1);
                kids.insert(at, Node::CData);
            }
            return true;
        }
        let idx: Vec<usize> = (0..kids.len()).collect();
        for i in idx {
            if insert_cdata_beside_children(&mut kids[i], rng) {
                return true;
            }
        }
    }
    false
}

pub fn run(ctx: &mut Ctx, c13: bool) {
    let evals = vec![Eval { label: "bytes", func: "ev_bytes".into(), role: "corr" }, Eval { label: "reflects", func: "or_reflects".into(), role: "oracle" }, Eval { label: "wf", func: "or_wf".into(), role: "oracle" }];
    let mut sh = Shards::new(&ctx.out, "progs", DOC_IMPORTS, "doccase", evals, "show_case", 100);
    let mut hist = Hist::default();
    let mut samples: Vec<J> = vec![];
    let mut distinct = std::collections::HashSet::new();
    let mut rng = ctx.rng.fork();
    let mut fails: Vec<J> = vec![];
    let n = if ctx.thorough { 1500 } else { 110 };
    let pls = pools(c13);
    let base_opts = if c13 { Opts::serde_xml_rs() } else { Opts::quick_xml() };

    struct Doc {
        text: String,
        toks: Vec<Tok>,
        vtop: Vec<VN>,
        /// one of the documents the structure was inferred from (false: a damaged copy, used
        /// only to validate the deserializer model)
        source: bool,
        kind: &'static str,
    }
    struct Prog {
        docs: Vec<Doc>,
        code: String,
        root: String,
        tree: Option<Tree>,
        giant: bool,
    }
    let mut progs: Vec<Prog> = vec![];
    // fixed programs at size thresholds, after the random ones (impl-only for the giant one: its
    // documents are not given to Coq)
    let fixed: Vec<(Vec<Vec<Node>>, bool)> = {
        let e = |n: &str, a: &[&str], kids: Vec<Node>| Node::Elem { name: n.to_string(), empty: kids.is_empty(), attrs: a.iter().map(|x| x.to_string()).collect(), kids };
        let many = |n: usize, twice: bool| {
            let mut kids: Vec<Node> = (0..n).map(|i| e(&format!("c{}", i), &[], vec![Node::Text])).collect();
            kids.push(e("entry", &["a"], vec![]));
            if twice {
                kids.push(e("entry", &["a"], vec![]));
            }
            vec![e("record", &[], kids)]
        };
        let rows = |n: usize, last_differs: bool| {
            let mut kids: Vec<Node> = (0..n).map(|_| e("row", &["id"], vec![e("price", &[], vec![Node::Text])])).collect();
            if last_differs {
                kids.push(e("row", &["id", "discontinued"], vec![e("name", &[], vec![Node::Text])]));
            }
            vec![e("export", &[], kids)]
        };
        let mut v = vec![(vec![many(70, true), many(70, false)], false), (vec![many(129, true)], false), (vec![rows(256, true), rows(3, false)], false)];
        // rows with two dozen attributes; a later row brings a new one, another lacks one
        {
            let attrs: Vec<String> = (0..26).map(|i| format!("a{}", i)).collect();
            let arefs: Vec<&str> = attrs.iter().map(|x| x.as_str()).collect();
            let mut more = arefs.clone();
            more.push("note");
            let mut fewer = arefs.clone();
            fewer.remove(11);
            v.push((vec![vec![e("table", &[], vec![e("row", &arefs, vec![]), e("row", &more, vec![])])], vec![e("table", &[], vec![e("row", &fewer, vec![])])]], false));
            v.push((vec![vec![e("row", &arefs, vec![])], vec![e("row", &more, vec![])]], false));
        }
        // blank / empty CDATA sections around a child element (known finding K3 for quick_xml::de)
        v.push((vec![vec![e("a", &[], vec![Node::CData, e("b", &[], vec![]), Node::CData])]], false));
        v.push((vec![vec![e("list", &["k"], vec![e("item", &["x"], vec![]), Node::CData, e("item", &["x"], vec![]), Node::CData, Node::CData])]], false));
        if ctx.thorough {
            v.push((vec![rows(12000, true)], true));
        }
        v
    };
    let n_fixed = fixed.len();
    for i in 0..n + n_fixed {
        let rp;
        let (names, attrs): (Vec<String>, Vec<String>) = if i % 5 == 4 {
            rp = crate::docprops::rand_pool(&mut rng);
            let mut ok = unique_locals(&rp.0) && unique_locals(&rp.1);
            if c13 {
                ok = ok && rp.0.iter().chain(rp.1.iter()).all(|x| !x.contains(':')) && rp.1.iter().all(|a| !rp.0.contains(a));
            }
            if !ok {
                (vec!["a".into(), "b".into(), "c".into()], vec!["x".into(), "y".into()])
            } else {
                rp
            }
        } else {
            let (a, b) = &pls[rng.below(pls.len())];
            (a.iter().map(|s| s.to_string()).collect(), b.iter().map(|s| s.to_string()).collect())
        };
        let nref: Vec<&str> = names.iter().map(|s| s.as_str()).collect();
        let aref: Vec<&str> = attrs.iter().map(|s| s.as_str()).collect();
        let mut g = GenCfg::basic(&nref, &aref);
        g.data_oriented = true;
        g.adjacent = c13;
        g.max_depth = rng.range(2, 4);
        g.max_kids = rng.range(1, 5);
        g.max_nodes = rng.range(4, 24);
        g.p_misc = 40;
        let k = rng.range(1, 3);
        let root = names[rng.below(names.len().min(2))].clone();
        let mut doms: Vec<Vec<Node>> = (0..k)
            .map(|_| {
                let mut d = gen_doc(&mut rng, &g, &root);
                d.retain(|x| !matches!(x, Node::Text));
                d
            })
            .collect();
        if rng.chance(1, 8) {
            let which = rng.below(doms.len());
            for nd in doms[which].iter_mut() {
                if insert_cdata_beside_children(nd, &mut rng) {
                    hist.add("blank-cdata-beside-child-elements");
                    break;
                }
            }
        }
        let mut giant = false;
        if i >= n {
            doms = fixed[i - n].0.clone();
            giant = fixed[i - n].1;
            hist.add("fixed-size-class-program");
        }
        let mut docs: Vec<Doc> = doms
            .iter()
            .map(|d| {
                let (text, toks, vtop) = write_doc_tok(d, &mut rng);
                Doc { text, toks, vtop, source: true, kind: "source" }
            })
            .collect();
        let bytes: Vec<Vec<u8>> = docs.iter().map(|d| d.text.clone().into_bytes()).collect();
        // damaged copies (never given to the library): reject side of the deserializer model
        for d in doms.iter() {
            if rng.chance(2, 3) {
                if let Some((m, kind)) = mutate_doc(d, &mut rng) {
                    let (text, toks, vtop) = write_doc_tok(&m, &mut rng);
                    docs.push(Doc { text, toks, vtop, source: false, kind });
                }
            }
        }
        let opts = base_opts.clone().sorted(rng.chance(1, 4));
        let mut scratch = crate::emit::Interner::default();
        let b = build_case(None, &bytes, &RCfg::default(), &[opts.clone()], if giant { &mut scratch } else { &mut sh.intern }, vec![("kind", json::s("program")), ("program", J::N(i as i64))]);
        hist.add(&format!("docs={}", k));
        let code = match b.renders.get(0) {
            Some((_, Ok(s))) => s.clone(),
            _ => {
                fails.push(json::obj(vec![("check", json::s("not-rendered")), ("documents", J::A(bytes.iter().map(|x| json::bytes(x)).collect())), ("what", json::s(format!("parse/extend/render did not produce source: {}", b.result.class())))]));
                sh.push(b.term, b.descr);
                continue;
            }
        };
        let root_struct = code.split("pub struct ").nth(1).and_then(|r| r.split(' ').next()).unwrap_or("").to_string();
        if samples.len() < 3 && i % 29 == 1 {
            samples.push(b.descr.clone());
        }
        distinct.insert(code.clone());
        let tree = match &b.result {
            ImplResult::Tree(t, _) => Some(t.clone()),
            _ => None,
        };
        if !giant {
            sh.push(b.term, b.descr);
        } else {
            // no Coq evaluation and no damaged copies for the giant program
            docs.retain(|d| d.source);
        }
        progs.push(Prog { docs, code, root: root_struct, tree, giant });
    }
    ctx.shards.extend(sh.finish());
    ctx.add_chars();

    // ---- the scratch crate
    let crate_dir = ctx.out.join("crate");
    std::fs::create_dir_all(crate_dir.join("src")).unwrap();
    std::fs::write(
        crate_dir.join("Cargo.toml"),
        "[package]\nname = \"xsgbatch\"\nversion = \"0.0.0\"\nedition = \"2021\"\n[workspace]\n[dependencies]\nquick-xml = { version = \"0.37.5\", features = [\"serialize\", \"overlapped-lists\"] }\nserde = { version = \"1.0\" }\nserde_derive = \"1.0\"\nserde-xml-rs = \"0.6.0\"\n[profile.dev]\nopt-level = 0\ndebug = false\nincremental = false\n",
    )
    .unwrap();
    let _ = std::fs::copy("/repo/Cargo.lock", crate_dir.join("Cargo.lock"));
    let mut main = String::from("#![allow(warnings)]\n");
    let mut body = String::new();
    let de = if c13 { "serde_xml_rs::from_str" } else { "quick_xml::de::from_str" };
    for (i, p) in progs.iter().enumerate() {
        // unchanged source (only the derive macros are brought into scope)
        std::fs::write(crate_dir.join("src").join(format!("p{}.rs", i)), format!("use serde_derive::{{Deserialize, Serialize}};\n{}", p.code)).unwrap();
        // same source with deny_unknown_fields and Debug on every struct
        // (C13 does not claim deny_unknown_fields: Debug only)
        let denied = p.code.replace("#[derive(Serialize, Deserialize)]\n", if c13 { "#[derive(Serialize, Deserialize, Debug)]\n" } else { "#[derive(Serialize, Deserialize, Debug)]\n#[serde(deny_unknown_fields)]\n" });
        std::fs::write(crate_dir.join("src").join(format!("d{}.rs", i)), format!("use serde_derive::{{Deserialize, Serialize}};\n{}", denied)).unwrap();
        // for the quick-xml preset a third copy: Debug without deny_unknown_fields (the value the
        // unchanged program computes, made printable)
        if !c13 {
            let dbg = p.code.replace("#[derive(Serialize, Deserialize)]\n", "#[derive(Serialize, Deserialize, Debug)]\n");
            std::fs::write(crate_dir.join("src").join(format!("e{}.rs", i)), format!("use serde_derive::{{Deserialize, Serialize}};\n{}", dbg)).unwrap();
            writeln!(main, "mod p{}; mod d{}; mod e{};", i, i, i).unwrap();
        } else {
            writeln!(main, "mod p{}; mod d{};", i, i).unwrap();
        }
        for (j, dd) in p.docs.iter().enumerate() {
            let doc = &dd.text;
            writeln!(body, "    match {}::<p{}::{}>({:?}) {{ Ok(_) => println!(\"P {} {} ok\"), Err(e) => println!(\"P {} {} err {{}}\", e.to_string().replace('\\n', \" \")) }}", de, i, p.root, doc, i, j, i, j).unwrap();
            writeln!(body, "    match {}::<d{}::{}>({:?}) {{ Ok(v) => println!(\"D {} {} ok {{}}\", format!(\"{{:?}}\", v).replace('\\n', \"\\\\n\")), Err(e) => println!(\"D {} {} err {{}}\", e.to_string().replace('\\n', \" \")) }}", de, i, p.root, doc, i, j, i, j).unwrap();
            if !c13 {
                writeln!(body, "    match {}::<e{}::{}>({:?}) {{ Ok(v) => println!(\"E {} {} ok {{}}\", format!(\"{{:?}}\", v).replace('\\n', \"\\\\n\")), Err(e) => println!(\"E {} {} err {{}}\", e.to_string().replace('\\n', \" \")) }}", de, i, p.root, doc, i, j, i, j).unwrap();
            }
        }
    }
    writeln!(main, "fn main() {{\n{}    println!(\"done\");\n}}", body).unwrap();
    std::fs::write(crate_dir.join("src").join("main.rs"), main).unwrap();
    let target = format!("{}/.cache/target-batch", ctx.verif);
    let t0 = std::time::Instant::now();
    let out = Command::new("cargo").args(["build", "--offline", "--quiet"]).current_dir(&crate_dir).env("CARGO_TARGET_DIR", &target).env("CARGO_NET_OFFLINE", "true").env("RUSTFLAGS", "-Awarnings").output();
    let build_s = t0.elapsed().as_secs_f64();
    let mut compiled = false;
    match out {
        Ok(o) if o.status.success() => compiled = true,
        Ok(o) => {
            // map rustc errors to programs by file name
            let err = String::from_utf8_lossy(&o.stderr).to_string();
            let mut seen = std::collections::BTreeSet::new();
            for line in err.lines() {
                if let Some(pos) = line.find("src/") {
                    let f = &line[pos + 4..];
                    if let Some(end) = f.find(".rs") {
                        let m = &f[..end];
                        if let Ok(k) = m[1..].parse::<usize>() {
                            seen.insert((m[..1].to_string(), k));
                        }
                    }
                }
            }
            let first_err: String = err.lines().filter(|l| l.starts_with("error")).take(3).collect::<Vec<_>>().join(" | ");
            if seen.is_empty() {
                fails.push(json::obj(vec![("check", json::s("batch-build")), ("what", json::s(format!("scratch crate does not build: {}", err.chars().take(1500).collect::<String>())))]));
            }
            for (kind, k) in seen.iter().take(5) {
                if let Some(p) = progs.get(*k) {
                    fails.push(json::obj(vec![
                        ("check", json::s("does-not-compile")),
                        ("what", json::s(format!("rustc rejects the rendered source ({}): {}", if kind == "p" { "unchanged" } else { "with deny_unknown_fields + Debug" }, first_err))),
                        ("documents", J::A(p.docs.iter().filter(|d| d.source).map(|d| json::s(&d.text)).collect())),
                        ("rendered", json::s(&p.code)),
                    ]));
                }
            }
        }
        Err(e) => fails.push(json::obj(vec![("check", json::s("batch-build")), ("what", json::s(e.to_string()))])),
    }
    let mut n_ok = 0;
    let mut n_runs = 0;
    // (program, document, variant) -> (accepted, string leaves of the Debug rendering)
    let mut real: std::collections::BTreeMap<(usize, usize, char), (bool, Option<Vec<String>>)> = std::collections::BTreeMap::new();
    if compiled {
        let exe = format!("{}/debug/xsgbatch", target);
        let o = Command::new(&exe).output();
        let stdout = o.map(|o| String::from_utf8_lossy(&o.stdout).to_string()).unwrap_or_default();
        if !stdout.trim_end().ends_with("done") {
            fails.push(json::obj(vec![("check", json::s("batch-run")), ("what", json::s("the batch program did not run to completion (panic inside a deserializer?)"))]));
        }
        for line in stdout.lines() {
            let mut it = line.splitn(5, ' ');
            let (Some(kind), Some(i), Some(j), Some(res)) = (it.next(), it.next(), it.next(), it.next()) else { continue };
            let rest = it.next().unwrap_or("");
            let (Ok(i), Ok(j)) = (i.parse::<usize>(), j.parse::<usize>()) else { continue };
            let p = &progs[i];
            let dd = &p.docs[j];
            let (doc, toks) = (&dd.text, &dd.toks);
            let kc = kind.chars().next().unwrap_or('?');
            real.insert((i, j, kc), (res == "ok", if res == "ok" && kc != 'P' { Some(debug_strings(rest)) } else { None }));
            if !dd.source || kc == 'E' {
                continue;
            }
            n_runs += 1;
            let mut fail = |check: &str, what: String, sig: Option<&str>| {
                let mut kv = vec![
                    ("check", json::s(check)),
                    ("what", json::s(what)),
                    ("documents", J::A(p.docs.iter().filter(|d| d.source).map(|d| json::s(&d.text)).collect())),
                    ("failing_document", json::s(doc)),
                    ("rendered", json::s(&p.code)),
                ];
                if let Some(s) = sig {
                    kv.push(("signature", json::s(s)));
                }
                fails.push(json::obj(kv));
            };
            if res == "err" {
                let k3 = !c13 && (rest.contains("duplicate field `$text`") || rest.contains("invalid type: string")) && dd.vtop.iter().any(k3_class);
                fail(if kind == "P" { "deserialize" } else { "deserialize-deny-unknown" }, format!("{} fails on a source document: {}", de, rest), if k3 { Some("K3-blank-cdata-runs-around-child-elements") } else { None });
                continue;
            }
            n_ok += 1;
            if kind == "D" {
                let missing: Vec<&Tok> = toks.iter().filter(|(t, _)| !rest.contains(t.as_str())).collect();
                if !missing.is_empty() {
                    // K1: serde-xml-rs preset, the element holding the text is rendered as a struct
                    // (the root, or an element with attributes or children): its text field stays None
                    fn struct_rendered(t: &Tree, path: &[String], is_root: bool) -> bool {
                        match path.split_first() {
                            None => is_root || !(t.text && t.attrs.is_empty() && t.children.is_empty()),
                            Some((n, r)) => t.children.iter().find(|(_, c)| c.name == *n).map(|(_, c)| struct_rendered(c, r, false)).unwrap_or(false),
                        }
                    }
                    let k1 = c13
                        && missing.iter().all(|(_, pth)| match (pth, &p.tree) {
                            (Some(pth), Some(t)) => !pth.is_empty() && pth[0] == t.name && struct_rendered(t, &pth[1..], true),
                            _ => false,
                        });
                    let names: Vec<&String> = missing.iter().map(|(t, _)| t).collect();
                    fail("value-dropped", format!("deserialized value does not hold {:?}: {}", names, rest.chars().take(600).collect::<String>()), if k1 { Some("K1-serde-xml-rs-struct-text-dropped") } else { None });
                }
            }
        }
    }
    // ---- the deserializer model (coq/Model/Deser.v) against the real deserializer: verdict and
    // string leaves, on the source documents and on the damaged copies
    {
        let evals = vec![Eval { label: "deser", func: "ev_deser".into(), role: "corr" }];
        let imports = "From XSG.Model Require Import Strings Necessity Element Parser Dom Render Deser.\nFrom XSG.Corr Require Import Common Oracles DeserCorr.\nFrom Coq Require Import String.";
        let mut sh2 = Shards::new(&ctx.out, "deser", imports, "desercase", evals, "show_deser", 60);
        let mut n_cases = 0;
        let mut n_reject = 0;
        for (i, p) in progs.iter().enumerate() {
            if p.giant {
                continue;
            }
            let ps = crate::outp::parse_output(&p.code).ok();
            for (j, dd) in p.docs.iter().enumerate() {
                let variants: Vec<(char, bool)> = if c13 { vec![('D', false)] } else { vec![('D', true), ('E', false)] };
                for (kc, deny) in variants {
                    let Some((ok, leaves)) = real.get(&(i, j, kc)) else { continue };
                    let ps_t = match &ps {
                        Some(ps) => format!("(Some {})", crate::outp::coq_pstructs(ps, &mut sh2.intern)),
                        None => "None".to_string(),
                    };
                    let doc_t = format!("[{}]", dd.vtop.iter().map(|v| coq_vn(v, &mut sh2.intern)).collect::<Vec<_>>().join("; "));
                    let leaves_t = match leaves {
                        Some(l) => format!("(Some [{}])", l.iter().map(|x| crate::emit::coq_str(x)).collect::<Vec<_>>().join("; ")),
                        None => "None".to_string(),
                    };
                    let term = format!("Build_desercase {} {} {} {} {} {}", crate::emit::coq_bool(c13), ps_t, doc_t, crate::emit::coq_bool(deny), crate::emit::coq_bool(*ok), leaves_t);
                    let descr = json::obj(vec![
                        ("kind", json::s("deserializer-model")),
                        ("document_kind", json::s(dd.kind)),
                        ("document", json::s(&dd.text)),
                        ("rendered", json::s(&p.code)),
                        ("deny_unknown_fields", J::B(deny)),
                        ("real_verdict", json::s(if *ok { "ok" } else { "err" })),
                        ("real_leaves", match leaves { Some(l) => J::A(l.iter().map(json::s).collect()), None => J::Null }),
                    ]);
                    sh2.push(term, descr);
                    n_cases += 1;
                    if !*ok {
                        n_reject += 1;
                    }
                    hist.add(&format!("deser:{}:{}", dd.kind, if *ok { "ok" } else { "err" }));
                }
            }
        }
        ctx.shards.extend(sh2.finish());
        ctx.meta.push(("x_deserializer_model_cases", J::N(n_cases)));
        ctx.meta.push(("x_deserializer_model_rejects", J::N(n_reject)));
    }
    // ---- state carried from call to call on one thread (the programs above were rendered on fresh threads)
    {
        let bad: [&[u8]; 6] = [b"<a x=1>", b"<a x='1' x='2'/>", b"<a><b></a>", b"<a><b><c><d x=1/></c></b></a>", b"<a><b x='1' x='2'><c/></b></a>", b"<a><!-- "];
        let inputs: Vec<Vec<u8>> = (0..(if ctx.thorough { 6000 } else { 2400 })).map(|i| if i % 6 == 5 { b"<a><b/></a>".to_vec() } else { bad[(i * 5) % 6].to_vec() }).collect();
        let reference: Vec<Vec<u8>> = vec![
            b"<order id='1'><customer vip='y'><name>n</name></customer><item sku='s'>t</item><item sku='u'/></order>".to_vec(),
            b"<order id='2' rush='1'><item sku='s'><note>x</note></item></order>".to_vec(),
        ];
        if let Some(what) = history_check(&inputs, &reference, 100) {
            ctx.impl_failures.push(json::obj(vec![("check", json::s("history-dependence")), ("what", json::s(what)), ("documents", J::A(reference.iter().map(|x| json::bytes(x)).collect()))]));
        }
        hist.addn("history-check-calls-on-one-thread", inputs.len() as i64);
    }
    hist.addn("programs", progs.len() as i64);
    hist.addn("deserializations-run", n_runs);
    hist.addn("deserializations-ok", n_ok);
    let _ = std::fs::remove_dir_all(&crate_dir);
    ctx.impl_failures.extend(fails);
    ctx.meta.push(("evaluations", J::N(progs.len() as i64)));
    ctx.meta.push(("distinct_nontrivial", J::N(distinct.len() as i64)));
    ctx.meta.push(("x_programs", J::N(progs.len() as i64)));
    ctx.meta.push(("x_programs_compiled", J::B(compiled)));
    ctx.meta.push(("x_deserializations_run", J::N(n_runs)));
    ctx.meta.push(("x_batch_build_seconds", J::F((build_s * 10.0).round() / 10.0)));
    ctx.meta.push(("rule", json::s(format!(
        "{} programs: data-oriented document sequences (1-3 documents, {} name pools incl. keywords, case/separator variants, prelude/serde type names, concatenation traps, non-ASCII{}; unique value tokens in every attribute and text) rendered with the {} preset; each rendered source goes unchanged into its own module of a scratch crate (edition 2021, serde_derive macros in scope) and a second time with deny_unknown_fields + Debug; rustc compiles the crate, {} runs on every source document; every value token must occur in the Debug rendering of the value; distinct by rendered source. {}",
        progs.len(), pls.len(), if c13 { "; namespace-free, attribute names disjoint from element names, repeated children adjacent" } else { ", prefixed names and xmlns attributes" }, if c13 { "serde-xml-rs" } else { "quick-xml" }, de, reparse_dom_note()))));
    ctx.meta.push(("histogram", hist.json()));
    ctx.meta.push(("samples", J::A(samples)));
}
