//! document-sequence cases: build the Coq `doccase` term for one sequence
use crate::core::*;
use crate::emit::Interner;
use crate::json::{self, J};
use crate::xml::{write_doc, Node, Style};
use crate::rng::Rng;

pub struct Built {
    pub term: String,
    pub descr: J,
    pub result: ImplResult,
    pub renders: Vec<(Opts, Result<String, String>)>,
    pub events: Vec<Vec<Ev>>,
}

/// `docs`: the DOM when the case is structured; `bytes`: what the library reads
pub fn build_case(docs: Option<&[Vec<Node>]>, bytes: &[Vec<u8>], cfg: &RCfg, opts: &[Opts], it: &mut Interner, extra: Vec<(&str, J)>) -> Built {
    // logging on for every other case (by content, so that a replay sees the same level)
    let h: usize = bytes.iter().map(|b| b.len() + b.first().map(|x| *x as usize).unwrap_or(0)).sum();
    log::set_max_level(if h % 2 == 0 { log::LevelFilter::Trace } else { log::LevelFilter::Off });
    let mut tab = ErrTab::default();
    let events: Vec<Vec<Ev>> = bytes.iter().map(|b| record(b, cfg, &mut tab)).collect();
    let result = run_impl_guarded(bytes, cfg, &mut tab, 10);
    let mut renders = vec![];
    if let ImplResult::Tree(_, e) = &result {
        for o in opts {
            renders.push((o.clone(), render(e, o)));
        }
    }
    let docs_t = match docs {
        Some(ds) => format!("[{}]", ds.iter().map(|d| coq_doc(d, it)).collect::<Vec<_>>().join("; ")),
        None => "[]".to_string(),
    };
    let evs_t = format!("[{}]", events.iter().map(|e| coq_events(e, it)).collect::<Vec<_>>().join("; "));
    let rend_t = format!(
        "[{}]",
        renders
            .iter()
            .map(|(o, r)| {
                let oc = o.coq(it);
                match r {
                    Ok(s) => format!("({}, {}%uint63, {})", oc, hash63(s), match crate::outp::parse_output(s) {
                        Ok(ps) => format!("Some {}", crate::outp::coq_pstructs(&ps, it)),
                        Err(_) => "None".to_string(),
                    }),
                    Err(_) => format!("({}, 0%uint63, None)", oc),
                }
            })
            .collect::<Vec<_>>()
            .join("; ")
    );
    let term = format!("Build_doccase {} {} {} {}", docs_t, evs_t, coq_iresult(&result, it), rend_t);
    let mut kv = vec![
        ("log_level", json::s(if h % 2 == 0 { "trace" } else { "off" })),
        ("documents", J::A(bytes.iter().map(|b| json::bytes(b)).collect())),
        ("reader", cfg.json()),
        ("impl", result.json()),
        ("error_table", J::A(tab.0.iter().map(json::s).collect())),
        (
            "renderings",
            J::A(renders
                .iter()
                .map(|(o, r)| {
                    json::obj(vec![("options", o.json()), ("output", match r {
                        Ok(s) => json::s(s),
                        Err(m) => json::obj(vec![("panic", json::s(m))]),
                    })])
                })
                .collect()),
        ),
    ];
    kv.extend(extra);
    Built { term, descr: json::obj(kv), result, renders, events }
}

/// serialise a DOM sequence with a style derived from `rng`
pub fn serialise(docs: &[Vec<Node>], rng: &mut Rng) -> Vec<Vec<u8>> {
    docs.iter()
        .map(|d| {
            let mut st = Style::new(rng.fork());
            write_doc(d, &mut st).into_bytes()
        })
        .collect()
}

/// like `serialise`, but text nodes are never blank and never start or end with white space
pub fn serialise_no_blank(docs: &[Vec<Node>], rng: &mut Rng) -> Vec<Vec<u8>> {
    docs.iter()
        .map(|d| {
            let mut st = Style::new(rng.fork());
            st.no_blank_text = true;
            write_doc(d, &mut st).into_bytes()
        })
        .collect()
}

pub const DOC_IMPORTS: &str = "From XSG.Model Require Import Strings Necessity Element Parser Dom Spec Render.\nFrom XSG.Corr Require Import Common Oracles CoreCorr.\nFrom Coq Require Import String Uint63.";
