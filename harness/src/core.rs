//! running the real library, recording reader events, parsing the Debug rendering of
//! Element (public derive; prints every private field), emitting Coq terms
use crate::emit::{coq_bool, coq_list, coq_opt, Interner};
use crate::json::{self, J};
use crate::xml::Node;
use quick_xml::events::Event;
use quick_xml::reader::Reader;
use std::io::BufRead;
use std::panic::{catch_unwind, AssertUnwindSafe};
use xml_schema_generator::{extend_struct, into_struct, Element, Options, ParserError, SortBy};

// ------------------------------------------------------------------ reader configuration
#[derive(Clone, Copy, Debug, PartialEq)]
pub struct RCfg {
    pub trim_text: bool,
    /// Config::trim_text_end alone (trim_text sets both ends): white-space-only character data
    /// then arrives as an *empty* Text event instead of disappearing
    pub trim_end: bool,
    /// Config::trim_text_start alone
    pub trim_start: bool,
    pub expand_empty: bool,
    pub check_end_names: bool,
    /// 0 = read from the byte slice directly, n>0 = BufReader::with_capacity(n)
    pub bufcap: usize,
    /// quick_xml Config::allow_unmatched_ends: a stray end tag is delivered as an End event
    pub allow_unmatched_ends: bool,
    /// the caller has already read this many events from the reader before handing it to the
    /// library (fragment parsing); the recorded stream is the remaining one
    pub skip_events: usize,
    /// the underlying Read fails with an I/O error after this many bytes (0 = never): a broken
    /// pipe, a truncated compressed stream
    pub fail_after: usize,
}
/// a reader over a byte slice that returns an I/O error once `limit` bytes have been delivered
pub struct FailingRead<'a> {
    data: &'a [u8],
    pos: usize,
    limit: usize,
    kind: std::io::ErrorKind,
}
impl<'a> std::io::Read for FailingRead<'a> {
    fn read(&mut self, buf: &mut [u8]) -> std::io::Result<usize> {
        if self.pos >= self.limit {
            return Err(std::io::Error::new(self.kind, "stream broke"));
        }
        let n = buf.len().min(self.limit - self.pos).min(self.data.len() - self.pos.min(self.data.len()));
        if n == 0 {
            if self.pos >= self.data.len() {
                return Ok(0);
            }
            return Err(std::io::Error::new(self.kind, "stream broke"));
        }
        buf[..n].copy_from_slice(&self.data[self.pos..self.pos + n]);
        self.pos += n;
        Ok(n)
    }
}
fn failing<'a>(bytes: &'a [u8], cfg: &RCfg) -> std::io::BufReader<FailingRead<'a>> {
    let kind = if cfg.fail_after % 2 == 0 { std::io::ErrorKind::UnexpectedEof } else { std::io::ErrorKind::BrokenPipe };
    std::io::BufReader::with_capacity(cfg.bufcap.max(1), FailingRead { data: bytes, pos: 0, limit: cfg.fail_after, kind })
}
impl RCfg {
    pub fn default() -> RCfg {
        RCfg { trim_text: false, trim_end: false, trim_start: false, expand_empty: false, check_end_names: true, bufcap: 0, allow_unmatched_ends: false, skip_events: 0, fail_after: 0 }
    }
    pub fn json(&self) -> J {
        json::obj(vec![("trim_text", J::B(self.trim_text)), ("trim_text_end_only", J::B(self.trim_end)), ("trim_text_start_only", J::B(self.trim_start)), ("expand_empty_elements", J::B(self.expand_empty)), ("check_end_names", J::B(self.check_end_names)), ("bufreader_capacity", J::N(self.bufcap as i64)), ("allow_unmatched_ends", J::B(self.allow_unmatched_ends)), ("events_read_by_caller_first", J::N(self.skip_events as i64)), ("read_fails_after_bytes", J::N(self.fail_after as i64))])
    }
}
fn configure<R>(r: &mut Reader<R>, c: &RCfg) {
    let cfg = r.config_mut();
    cfg.trim_text(c.trim_text);
    if c.trim_end {
        cfg.trim_text_end = true;
    }
    if c.trim_start {
        cfg.trim_text_start = true;
    }
    cfg.expand_empty_elements = c.expand_empty;
    cfg.check_end_names = c.check_end_names;
    cfg.allow_unmatched_ends = c.allow_unmatched_ends;
}
/// the caller reads `n` events itself before the library sees the reader
fn skip<R: std::io::BufRead>(r: &mut Reader<R>, n: usize) {
    let mut buf = Vec::new();
    for _ in 0..n {
        match r.read_event_into(&mut buf) {
            Ok(Event::Eof) | Err(_) => break,
            _ => {}
        }
        buf.clear();
    }
}

// ------------------------------------------------------------------ error table
/// per-case table of error payloads: id = index of the Display/Debug text
#[derive(Default, Clone)]
pub struct ErrTab(pub Vec<String>);
impl ErrTab {
    pub fn id(&mut self, s: String) -> usize {
        if let Some(i) = self.0.iter().position(|x| *x == s) {
            return i;
        }
        self.0.push(s);
        self.0.len() - 1
    }
}

// ------------------------------------------------------------------ events
#[derive(Clone, Debug, PartialEq)]
pub enum Res<T> {
    Ok(T),
    Bad(usize),
}
#[derive(Clone, Debug, PartialEq)]
pub enum AttrRes {
    Ok(Res<String>),
    Err(usize),
}
#[derive(Clone, Debug, PartialEq)]
pub enum Ev {
    Start(Res<String>, Vec<AttrRes>),
    Empty(Res<String>, Vec<AttrRes>),
    End,
    Text(Res<()>),
    CData(Res<()>),
    Misc,
    Err(u64, usize),
}

fn utf8(b: &[u8], tab: &mut ErrTab) -> Res<String> {
    match String::from_utf8(b.to_vec()) {
        Ok(s) => Res::Ok(s),
        Err(e) => Res::Bad(tab.id(format!("{}", e))),
    }
}
fn attrs_of(e: &quick_xml::events::BytesStart<'_>, tab: &mut ErrTab) -> Vec<AttrRes> {
    let mut v = vec![];
    for a in e.attributes() {
        match a {
            Ok(a) => {
                let k = utf8(a.key.as_ref(), tab);
                let bad = matches!(k, Res::Bad(_));
                v.push(AttrRes::Ok(k));
                if bad {
                    break;
                }
            }
            Err(err) => {
                v.push(AttrRes::Err(tab.id(format!("{}", err))));
                break; // the consumer stops at the first fault
            }
        }
    }
    v
}
fn record_from<R: BufRead>(mut reader: Reader<R>, cfg: &RCfg, tab: &mut ErrTab, limit: usize) -> Vec<Ev> {
    configure(&mut reader, cfg);
    skip(&mut reader, cfg.skip_events);
    let mut buf = Vec::new();
    let mut out = vec![];
    loop {
        if out.len() > limit {
            break;
        }
        match reader.read_event_into(&mut buf) {
            Ok(Event::Start(e)) => {
                let n = utf8(e.name().as_ref(), tab);
                let a = attrs_of(&e, tab);
                out.push(Ev::Start(n, a))
            }
            Ok(Event::Empty(e)) => {
                let n = utf8(e.name().as_ref(), tab);
                let a = attrs_of(&e, tab);
                out.push(Ev::Empty(n, a))
            }
            Ok(Event::End(_)) => out.push(Ev::End),
            Ok(Event::Text(e)) => out.push(Ev::Text(match utf8(&e.into_inner(), tab) {
                Res::Ok(_) => Res::Ok(()),
                Res::Bad(i) => Res::Bad(i),
            })),
            Ok(Event::CData(e)) => out.push(Ev::CData(match utf8(&e.into_inner(), tab) {
                Res::Ok(_) => Res::Ok(()),
                Res::Bad(i) => Res::Bad(i),
            })),
            Ok(Event::Comment(_)) | Ok(Event::Decl(_)) | Ok(Event::PI(_)) | Ok(Event::DocType(_)) => out.push(Ev::Misc),
            Ok(Event::Eof) => break,
            Err(e) => {
                let pos = reader.buffer_position();
                out.push(Ev::Err(pos, tab.id(format!("{:?}", e))));
                break;
            }
        }
        buf.clear();
    }
    out
}
/// independent pass over the same bytes with the same reader configuration
pub fn record(bytes: &[u8], cfg: &RCfg, tab: &mut ErrTab) -> Vec<Ev> {
    let limit = bytes.len() + 8;
    if cfg.fail_after > 0 {
        return record_from(Reader::from_reader(failing(bytes, cfg)), cfg, tab, limit);
    }
    if cfg.bufcap == 0 {
        record_from(Reader::from_reader(bytes), cfg, tab, limit)
    } else {
        record_from(Reader::from_reader(std::io::BufReader::with_capacity(cfg.bufcap, bytes)), cfg, tab, limit)
    }
}

/// number of times the element state could not be read back (the check then cannot decide)
pub static OBSERVATION_LOST: std::sync::atomic::AtomicUsize = std::sync::atomic::AtomicUsize::new(0);

// ------------------------------------------------------------------ Element state (parsed from {:?})
#[derive(Clone, Debug, PartialEq, Eq, Hash)]
pub struct Tree {
    pub name: String,
    pub text: bool,
    pub standalone: bool,
    pub count: u64,
    pub attrs: Vec<(bool, String)>,
    pub children: Vec<(bool, Tree)>,
    pub pos: Option<usize>,
}
struct P<'a> {
    s: &'a [u8],
    i: usize,
}
impl<'a> P<'a> {
    fn ws(&mut self) {
        while self.i < self.s.len() && (self.s[self.i] == b' ' || self.s[self.i] == b'\n') {
            self.i += 1;
        }
    }
    fn lit(&mut self, l: &str) -> Result<(), String> {
        self.ws();
        if self.s[self.i..].starts_with(l.as_bytes()) {
            self.i += l.len();
            Ok(())
        } else {
            Err(format!("expected {:?} at {} in {:?}", l, self.i, String::from_utf8_lossy(&self.s[self.i..(self.i + 30).min(self.s.len())])))
        }
    }
    fn peek(&mut self, l: &str) -> bool {
        self.ws();
        self.s[self.i..].starts_with(l.as_bytes())
    }
    fn string(&mut self) -> Result<String, String> {
        self.lit("\"")?;
        let mut out: Vec<u8> = vec![];
        loop {
            if self.i >= self.s.len() {
                return Err("unterminated string".into());
            }
            let c = self.s[self.i];
            self.i += 1;
            match c {
                b'"' => break,
                b'\\' => {
                    let e = self.s[self.i];
                    self.i += 1;
                    match e {
                        b'n' => out.push(b'\n'),
                        b'r' => out.push(b'\r'),
                        b't' => out.push(b'\t'),
                        b'0' => out.push(0),
                        b'\\' => out.push(b'\\'),
                        b'"' => out.push(b'"'),
                        b'\'' => out.push(b'\''),
                        b'u' => {
                            self.lit("{")?;
                            let st = self.i;
                            while self.s[self.i] != b'}' {
                                self.i += 1;
                            }
                            let hex = std::str::from_utf8(&self.s[st..self.i]).unwrap();
                            self.i += 1;
                            let cp = u32::from_str_radix(hex, 16).map_err(|e| e.to_string())?;
                            let ch = char::from_u32(cp).ok_or("bad escape")?;
                            let mut b = [0u8; 4];
                            out.extend_from_slice(ch.encode_utf8(&mut b).as_bytes());
                        }
                        _ => return Err("unknown escape".into()),
                    }
                }
                c => out.push(c),
            }
        }
        String::from_utf8(out).map_err(|e| e.to_string())
    }
    fn boolean(&mut self) -> Result<bool, String> {
        if self.peek("true") {
            self.lit("true")?;
            Ok(true)
        } else {
            self.lit("false")?;
            Ok(false)
        }
    }
    fn number(&mut self) -> Result<u64, String> {
        self.ws();
        let st = self.i;
        while self.i < self.s.len() && self.s[self.i].is_ascii_digit() {
            self.i += 1;
        }
        std::str::from_utf8(&self.s[st..self.i]).unwrap().parse::<u64>().map_err(|e| e.to_string())
    }
    fn tagged<T, F: Fn(&mut P<'a>) -> Result<T, String>>(&mut self, f: F) -> Result<(bool, T), String> {
        let m = if self.peek("Mandatory(") {
            self.lit("Mandatory(")?;
            true
        } else {
            self.lit("Optional(")?;
            false
        };
        let x = f(self)?;
        self.lit(")")?;
        Ok((m, x))
    }
    fn list<T, F: Fn(&mut P<'a>) -> Result<T, String>>(&mut self, f: F) -> Result<Vec<T>, String> {
        self.lit("[")?;
        let mut v = vec![];
        loop {
            if self.peek("]") {
                self.lit("]")?;
                break;
            }
            v.push(f(self)?);
            if self.peek(",") {
                self.lit(",")?;
            }
        }
        Ok(v)
    }
    /// skip one Debug value (up to the `,` or closing bracket of the enclosing structure)
    fn skip_value(&mut self) -> Result<(), String> {
        let mut depth = 0i32;
        loop {
            if self.i >= self.s.len() {
                return Err("unterminated value".into());
            }
            match self.s[self.i] {
                b'"' => {
                    self.string()?;
                    continue;
                }
                b'(' | b'[' | b'{' => depth += 1,
                b')' | b']' | b'}' => {
                    if depth == 0 {
                        return Ok(());
                    }
                    depth -= 1;
                }
                b',' if depth == 0 => return Ok(()),
                _ => {}
            }
            self.i += 1;
        }
    }
    /// `Element { field: value, ... }` — the fields the model knows in any order; a field it does
    /// not know (added by a later version of the library) is skipped, so that adding private state
    /// does not blind the harness
    fn element(&mut self) -> Result<Tree, String> {
        self.lit("Element {")?;
        let (mut name, mut text, mut standalone, mut count, mut attrs, mut children, mut pos) = (None, None, None, None, None, None, None);
        loop {
            if self.peek("}") {
                self.lit("}")?;
                break;
            }
            self.ws();
            let st = self.i;
            while self.i < self.s.len() && (self.s[self.i].is_ascii_alphanumeric() || self.s[self.i] == b'_') {
                self.i += 1;
            }
            let field = std::str::from_utf8(&self.s[st..self.i]).unwrap().to_string();
            self.lit(":")?;
            match field.as_str() {
                "name" => name = Some(self.string()?),
                "text" => {
                    text = Some(if self.peek("None") {
                        self.lit("None")?;
                        false
                    } else {
                        self.lit("Some(")?;
                        self.string()?;
                        self.lit(")")?;
                        true
                    })
                }
                "standalone" => standalone = Some(self.boolean()?),
                "count" => count = Some(self.number()?),
                "attributes" => attrs = Some(self.list(|p| p.tagged(|q| q.string()))?),
                "children" => children = Some(self.list(|p| p.tagged(|q| q.element()))?),
                "position" => {
                    pos = Some(if self.peek("None") {
                        self.lit("None")?;
                        None
                    } else {
                        self.lit("Some(")?;
                        let n = self.number()?;
                        self.lit(")")?;
                        Some(n as usize)
                    })
                }
                "" => return Err(format!("field name expected at {}", self.i)),
                _ => self.skip_value()?,
            }
            if self.peek(",") {
                self.lit(",")?;
            }
        }
        match (name, text, standalone, count, attrs, children, pos) {
            (Some(name), Some(text), Some(standalone), Some(count), Some(attrs), Some(children), Some(pos)) => Ok(Tree { name, text, standalone, count, attrs, children, pos }),
            _ => Err("a field of Element the model observes is missing from the Debug output".into()),
        }
    }
}
pub fn tree_of(e: &Element<String>) -> Result<Tree, String> {
    let d = format!("{:?}", e);
    let mut p = P { s: d.as_bytes(), i: 0 };
    let t = p.element()?;
    p.ws();
    if p.i != d.len() {
        return Err("trailing Debug output".into());
    }
    // cross-check with the public accessors
    fn cross(t: &Tree, e: &Element<String>) -> bool {
        t.name == e.name
            && t.text == e.text.is_some()
            && t.standalone == e.standalone()
            && t.count == e.count() as u64
            && t.children.len() == e.children().len()
            && t.children.iter().zip(e.children().iter()).all(|((m, c), n)| {
                *m == matches!(n, xml_schema_generator::Necessity::Mandatory(_)) && cross(c, n.inner_t())
            })
    }
    if !cross(&t, e) {
        return Err("Debug rendering disagrees with the public accessors".into());
    }
    Ok(t)
}

// ------------------------------------------------------------------ implementation runs
pub enum ImplResult {
    Tree(Tree, Element<String>),
    ErrQuickXml(u64, usize, String),
    ErrUtf8(usize, String),
    ErrAttr(usize, String),
    ErrNoRoot(String),
    Other(String), // panic, unclassifiable
}
impl ImplResult {
    pub fn class(&self) -> &'static str {
        match self {
            ImplResult::Tree(..) => "Ok",
            ImplResult::ErrQuickXml(..) => "QuickXmlError",
            ImplResult::ErrUtf8(..) => "FromUtf8Error",
            ImplResult::ErrAttr(..) => "AttrError",
            ImplResult::ErrNoRoot(..) => "NoRoot",
            ImplResult::Other(..) => "Other",
        }
    }
    pub fn json(&self) -> J {
        match self {
            ImplResult::Tree(t, _) => json::obj(vec![("ok", tree_json(t))]),
            ImplResult::ErrQuickXml(p, _, d) => json::obj(vec![("err", json::s("QuickXmlError")), ("position", J::N(*p as i64)), ("display", json::s(d))]),
            ImplResult::ErrUtf8(_, d) => json::obj(vec![("err", json::s("FromUtf8Error")), ("display", json::s(d))]),
            ImplResult::ErrAttr(_, d) => json::obj(vec![("err", json::s("AttrError")), ("display", json::s(d))]),
            ImplResult::ErrNoRoot(d) => json::obj(vec![("err", json::s("ParsingError")), ("display", json::s(d))]),
            ImplResult::Other(d) => json::obj(vec![("other", json::s(d))]),
        }
    }
}
pub fn tree_json(t: &Tree) -> J {
    json::obj(vec![
        ("name", json::s(&t.name)),
        ("text", J::B(t.text)),
        ("standalone", J::B(t.standalone)),
        ("count", J::N(t.count as i64)),
        ("attributes", J::A(t.attrs.iter().map(|(m, a)| json::s(format!("{}:{}", if *m { "M" } else { "O" }, a))).collect())),
        ("children", J::A(t.children.iter().map(|(m, c)| json::obj(vec![("necessity", json::s(if *m { "M" } else { "O" })), ("element", tree_json(c))])).collect())),
        ("position", match t.pos {
            Some(p) => J::N(p as i64),
            None => J::Null,
        }),
    ])
}

pub fn classify(e: ParserError, tab: &mut ErrTab) -> ImplResult {
    let disp = format!("{}", e);
    match e {
        ParserError::QuickXmlError(pos, err) => ImplResult::ErrQuickXml(pos, tab.id(format!("{:?}", err)), disp),
        ParserError::FromUtf8Error(err) => ImplResult::ErrUtf8(tab.id(format!("{}", err)), disp),
        ParserError::AttrError(err) => ImplResult::ErrAttr(tab.id(format!("{}", err)), disp),
        ParserError::ParsingError(s) => {
            if s == "invalid XML, no root element found" {
                ImplResult::ErrNoRoot(disp)
            } else {
                ImplResult::Other(format!("ParsingError({})", s))
            }
        }
    }
}

pub fn parse_one(bytes: &[u8], cfg: &RCfg, prev: Option<Element<String>>) -> Result<Element<String>, ParserError> {
    macro_rules! go {
        ($r:expr) => {{
            let mut reader = $r;
            configure(&mut reader, cfg);
            skip(&mut reader, cfg.skip_events);
            match prev {
                None => into_struct(&mut reader),
                Some(root) => extend_struct(&mut reader, root),
            }
        }};
    }
    if cfg.fail_after > 0 {
        return go!(Reader::from_reader(failing(bytes, cfg)));
    }
    if cfg.bufcap == 0 {
        go!(Reader::from_reader(bytes))
    } else {
        go!(Reader::from_reader(std::io::BufReader::with_capacity(cfg.bufcap, bytes)))
    }
}

/// parse(D1), extend(D2), ..., extend(Dk) on the real library; panics are caught
pub fn run_impl(docs: &[Vec<u8>], cfg: &RCfg, tab: &mut ErrTab) -> ImplResult {
    let r = catch_unwind(AssertUnwindSafe(|| {
        let mut cur: Option<Element<String>> = None;
        for d in docs {
            match parse_one(d, cfg, cur.take()) {
                Ok(e) => {
                    // a caller may render after every step: whatever a rendering leaves behind on
                    // the element must not influence later extensions or renderings
                    let _ = e.to_serde_struct(&Options::quick_xml_de());
                    cur = Some(e)
                }
                Err(e) => return Err(e),
            }
        }
        Ok(cur)
    }));
    match r {
        Err(p) => ImplResult::Other(format!("panic: {}", panic_msg(&p))),
        Ok(Err(e)) => classify(e, tab),
        Ok(Ok(None)) => ImplResult::Other("no documents".into()),
        Ok(Ok(Some(e))) => match tree_of(&e) {
            Ok(t) => ImplResult::Tree(t, e),
            Err(m) => {
                OBSERVATION_LOST.fetch_add(1, std::sync::atomic::Ordering::Relaxed);
                ImplResult::Other(format!("cannot read Debug output: {}", m))
            }
        },
    }
}
/// Many calls on ONE thread (no fresh thread per case): whatever a call leaves behind outside its
/// return value — a thread-local, a static, a cache — must not influence later calls.  `inputs` are
/// fed one after the other; before, and after every `every` inputs, the reference sequence is parsed
/// and rendered again and must give the first result.  Returns a description of the first difference.
pub fn history_check(inputs: &[Vec<u8>], reference: &[Vec<u8>], every: usize) -> Option<String> {
    let cfg = RCfg::default();
    let observe = || -> String {
        let mut tab = ErrTab::default();
        match run_impl(reference, &cfg, &mut tab) {
            ImplResult::Tree(t, e) => format!("{:?}\n{}", t, render(&e, &Opts::quick_xml()).unwrap_or_else(|m| format!("render panic {}", m))),
            other => format!("{}", other.class()),
        }
    };
    let first = observe();
    let mut errors = 0usize;
    for (i, inp) in inputs.iter().enumerate() {
        let mut tab = ErrTab::default();
        let r = run_impl(&[inp.clone()], &cfg, &mut tab);
        if !matches!(r, ImplResult::Tree(..)) {
            errors += 1;
        }
        if (i + 1) % every == 0 || i + 1 == inputs.len() {
            let now = observe();
            if now != first {
                return Some(format!(
                    "after {} calls on one thread ({} of them returned an error) the reference documents give a different result: first {:?}, now {:?}",
                    i + 1, errors, first.chars().take(400).collect::<String>(), now.chars().take(400).collect::<String>()
                ));
            }
        }
    }
    None
}

/// run_impl on a separate thread with a watchdog: a hang is an outcome, not a stuck harness
pub fn run_impl_guarded(docs: &[Vec<u8>], cfg: &RCfg, tab: &mut ErrTab, secs: u64) -> ImplResult {
    let (tx, rx) = std::sync::mpsc::channel();
    let d = docs.to_vec();
    let c = *cfg;
    let mut t = tab.clone();
    let _ = std::thread::Builder::new().stack_size(256 << 20).spawn(move || {
        let r = run_impl(&d, &c, &mut t);
        let _ = tx.send((r, t));
    });
    match rx.recv_timeout(std::time::Duration::from_secs(secs)) {
        Ok((r, t)) => {
            *tab = t;
            r
        }
        Err(_) => ImplResult::Other(format!("no result within {} s (hang or crash of the worker thread)", secs)),
    }
}
pub fn panic_msg(p: &Box<dyn std::any::Any + Send>) -> String {
    if let Some(s) = p.downcast_ref::<&str>() {
        s.to_string()
    } else if let Some(s) = p.downcast_ref::<String>() {
        s.clone()
    } else {
        "?".to_string()
    }
}

// ------------------------------------------------------------------ options
#[derive(Clone, Debug, PartialEq)]
pub struct Opts {
    pub text_identifier: String,
    pub attribute_prefix: String,
    pub derive: String,
    pub sort_by_name: bool,
}
impl Opts {
    pub fn quick_xml() -> Opts {
        let o = Options::quick_xml_de();
        Opts { text_identifier: o.text_identifier, attribute_prefix: o.attribute_prefix, derive: o.derive, sort_by_name: matches!(o.sort, SortBy::XmlName) }
    }
    pub fn serde_xml_rs() -> Opts {
        let o = Options::serde_xml_rs();
        Opts { text_identifier: o.text_identifier, attribute_prefix: o.attribute_prefix, derive: o.derive, sort_by_name: matches!(o.sort, SortBy::XmlName) }
    }
    pub fn sorted(mut self, b: bool) -> Opts {
        self.sort_by_name = b;
        self
    }
    pub fn to_options(&self) -> Options {
        // the derive string goes through the public builder `Options::derive` (the way a caller sets
        // it; round 12 of the seeded changes: a builder that trims its argument), the other fields
        // have no builder and are set directly
        Options {
            text_identifier: self.text_identifier.clone(),
            attribute_prefix: self.attribute_prefix.clone(),
            derive: String::new(),
            sort: if self.sort_by_name { SortBy::XmlName } else { SortBy::Unsorted },
        }
        .derive(&self.derive)
    }
    pub fn json(&self) -> J {
        json::obj(vec![("text_identifier", json::s(&self.text_identifier)), ("attribute_prefix", json::s(&self.attribute_prefix)), ("derive", json::s(&self.derive)), ("sort", json::s(if self.sort_by_name { "XmlName" } else { "Unsorted" }))])
    }
    pub fn coq(&self, it: &mut Interner) -> String {
        format!(
            "(Build_options {} {} {} {})",
            it.get(&self.text_identifier),
            it.get(&self.attribute_prefix),
            it.get(&self.derive),
            if self.sort_by_name { "XmlName" } else { "Unsorted" }
        )
    }
}
pub fn render(e: &Element<String>, o: &Opts) -> Result<String, String> {
    let opts = o.to_options();
    catch_unwind(AssertUnwindSafe(|| e.to_serde_struct(&opts))).map_err(|p| format!("panic: {}", panic_msg(&p)))
}
/// the 63-bit polynomial hash of Corr/CoreCorr.v `hash63`
pub fn hash63(s: &str) -> u64 {
    let mut h: u64 = 1469598103;
    for c in s.chars() {
        h = h.wrapping_mul(1000003).wrapping_add(c as u64).wrapping_add(1) & 0x7fff_ffff_ffff_ffff;
    }
    h
}

// ------------------------------------------------------------------ Coq terms
pub fn coq_node(n: &Node, it: &mut Interner) -> String {
    match n {
        Node::Text => "NText".into(),
        Node::CData => "NCData".into(),
        Node::Misc => "NMisc".into(),
        Node::Elem { name, empty, attrs, kids } => {
            let nm = it.get(name);
            let at: Vec<String> = attrs.iter().map(|a| it.get(a)).collect();
            let ks: Vec<String> = kids.iter().map(|k| coq_node(k, it)).collect();
            format!("(NElem {} {} [{}] [{}])", nm, coq_bool(*empty), at.join("; "), ks.join("; "))
        }
    }
}
pub fn coq_doc(top: &[Node], it: &mut Interner) -> String {
    let ks: Vec<String> = top.iter().map(|k| coq_node(k, it)).collect();
    format!("[{}]", ks.join("; "))
}
fn coq_res_str(r: &Res<String>, it: &mut Interner) -> String {
    match r {
        Res::Ok(s) => format!("(ROk {})", it.get(s)),
        Res::Bad(i) => format!("(RBad {})", i),
    }
}
pub fn coq_event(e: &Ev, it: &mut Interner) -> String {
    let attrs = |a: &Vec<AttrRes>, it: &mut Interner| -> String {
        let v: Vec<String> = a
            .iter()
            .map(|x| match x {
                AttrRes::Ok(k) => format!("AOk {}", coq_res_str(k, it)),
                AttrRes::Err(i) => format!("AErr {}", i),
            })
            .collect();
        format!("[{}]", v.join("; "))
    };
    match e {
        Ev::Start(n, a) => format!("EStart {} {}", coq_res_str(n, it), attrs(a, it)),
        Ev::Empty(n, a) => format!("EEmpty {} {}", coq_res_str(n, it), attrs(a, it)),
        Ev::End => "EEnd".into(),
        Ev::Text(Res::Ok(_)) => "EText (ROk tt)".into(),
        Ev::Text(Res::Bad(i)) => format!("EText (RBad {})", i),
        Ev::CData(Res::Ok(_)) => "ECData (ROk tt)".into(),
        Ev::CData(Res::Bad(i)) => format!("ECData (RBad {})", i),
        Ev::Misc => "EMisc".into(),
        Ev::Err(p, i) => format!("EErr {} {}", p, i),
    }
}
pub fn coq_events(evs: &[Ev], it: &mut Interner) -> String {
    let v: Vec<String> = evs.iter().map(|e| coq_event(e, it)).collect();
    format!("[{}]", v.join("; "))
}
pub fn coq_tree(t: &Tree, it: &mut Interner) -> String {
    let at: Vec<String> = t.attrs.iter().map(|(m, a)| format!("({},{})", if *m { "Mand" } else { "Opt" }, it.get(a))).collect();
    let ch: Vec<String> = t.children.iter().map(|(m, c)| format!("({},{})", if *m { "Mand" } else { "Opt" }, coq_tree(c, it))).collect();
    format!(
        "(Elem {} {} {} {} [{}] [{}] {})",
        it.get(&t.name),
        coq_bool(t.text),
        coq_bool(t.standalone),
        t.count,
        at.join("; "),
        ch.join("; "),
        coq_opt(&t.pos, |p| format!("{}%nat", p))
    )
}
pub fn coq_iresult(r: &ImplResult, it: &mut Interner) -> String {
    match r {
        ImplResult::Tree(t, _) => format!("(ITree {})", coq_tree(t, it)),
        ImplResult::ErrQuickXml(p, i, _) => format!("(IErrQuickXml {} {})", p, i),
        ImplResult::ErrUtf8(i, _) => format!("(IErrUtf8 {})", i),
        ImplResult::ErrAttr(i, _) => format!("(IErrAttr {})", i),
        ImplResult::ErrNoRoot(_) => "IErrNoRoot".into(),
        ImplResult::Other(_) => "IOther".into(),
    }
}
pub fn node_json(n: &Node) -> J {
    match n {
        Node::Text => json::s("#text"),
        Node::CData => json::s("#cdata"),
        Node::Misc => json::s("#misc"),
        Node::Elem { name, empty, attrs, kids } => json::obj(vec![
            ("name", json::s(name)),
            ("empty_form", J::B(*empty)),
            ("attrs", J::A(attrs.iter().map(json::s).collect())),
            ("kids", J::A(kids.iter().map(node_json).collect())),
        ]),
    }
}
#[allow(dead_code)]
pub fn unused(_: &dyn Fn(&[u8]) -> String) -> String {
    coq_list(&[0u8], |x| x.to_string())
}
