//! minimal JSON value + writer (no external crates)
use std::collections::BTreeMap;
#[derive(Clone, Debug)]
pub enum J {
    Null,
    B(bool),
    N(i64),
    F(f64),
    S(String),
    A(Vec<J>),
    O(BTreeMap<String, J>),
}
pub fn s<T: AsRef<str>>(x: T) -> J {
    J::S(x.as_ref().to_string())
}
pub fn obj(kv: Vec<(&str, J)>) -> J {
    J::O(kv.into_iter().map(|(k, v)| (k.to_string(), v)).collect())
}
pub fn arr<T, F: Fn(&T) -> J>(v: &[T], f: F) -> J {
    J::A(v.iter().map(f).collect())
}
impl J {
    pub fn to_string(&self) -> String {
        let mut o = String::new();
        self.write(&mut o);
        o
    }
    fn write(&self, o: &mut String) {
        match self {
            J::Null => o.push_str("null"),
            J::B(b) => o.push_str(if *b { "true" } else { "false" }),
            J::N(n) => o.push_str(&n.to_string()),
            J::F(f) => o.push_str(&format!("{}", f)),
            J::S(s) => {
                o.push('"');
                for c in s.chars() {
                    match c {
                        '"' => o.push_str("\\\""),
                        '\\' => o.push_str("\\\\"),
                        '\n' => o.push_str("\\n"),
                        '\r' => o.push_str("\\r"),
                        '\t' => o.push_str("\\t"),
                        c if (c as u32) < 0x20 => o.push_str(&format!("\\u{:04x}", c as u32)),
                        c => o.push(c),
                    }
                }
                o.push('"');
            }
            J::A(v) => {
                o.push('[');
                for (i, x) in v.iter().enumerate() {
                    if i > 0 {
                        o.push(',');
                    }
                    x.write(o);
                }
                o.push(']');
            }
            J::O(m) => {
                o.push('{');
                for (i, (k, v)) in m.iter().enumerate() {
                    if i > 0 {
                        o.push(',');
                    }
                    J::S(k.clone()).write(o);
                    o.push(':');
                    v.write(o);
                }
                o.push('}');
            }
        }
    }
}
/// bytes as a JSON string when valid UTF-8, else as {"hex": ".."}
pub fn bytes(b: &[u8]) -> J {
    match std::str::from_utf8(b) {
        Ok(t) => s(t),
        Err(_) => obj(vec![("hex", s(b.iter().map(|x| format!("{:02x}", x)).collect::<String>()))]),
    }
}
