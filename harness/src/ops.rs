//! C16: sequences of the public construction operations on hand-built element trees
use crate::core::*;
use crate::emit::{coq_list, Eval, Hist, Interner, Shards};
use crate::json::{self, J};
use crate::rng::Rng;
use crate::Ctx;
use std::panic::{catch_unwind, AssertUnwindSafe};
use xml_schema_generator::{Element, Necessity};

#[derive(Clone, Debug)]
pub enum Op {
    Add(Vec<String>, String, Vec<String>),
    AddCopy(Vec<String>, Vec<String>),
    Move(Vec<String>, String, Vec<String>),
    Opt(Vec<String>, String),
    Remove(Vec<String>, String),
    Merge(Vec<String>, Vec<(bool, String)>),
    Multiple(Vec<String>),
    Text(Vec<String>, bool),
    Incr(Vec<String>),
}
type E = Element<String>;
fn get<'a>(e: &'a E, p: &[String]) -> Option<&'a E> {
    match p.split_first() {
        None => Some(e),
        Some((n, r)) => e.get_child(n).and_then(|c| get(c.inner_t(), r)),
    }
}
fn get_mut<'a>(e: &'a mut E, p: &[String]) -> Option<&'a mut E> {
    match p.split_first() {
        None => Some(e),
        Some((n, r)) => match e.get_child_mut(n) {
            Some(c) => get_mut(c.inner_t_mut(), r),
            None => None,
        },
    }
}
fn apply(root: &mut E, op: &Op) -> Option<Necessity<E>> {
    match op {
        Op::Add(p, n, a) => {
            if let Some(x) = get_mut(root, p) {
                x.add_unique_child(Element::new(n.clone(), a.clone()));
            }
            None
        }
        Op::AddCopy(src, dst) => {
            let c = get(root, src).cloned();
            if let Some(c) = c {
                if let Some(d) = get_mut(root, dst) {
                    d.add_unique_child(c);
                }
            }
            None
        }
        Op::Move(src, n, dst) => {
            let x = get_mut(root, src).and_then(|s| s.remove_child(n));
            if let Some(x) = x {
                let copy = x.clone();
                if let Some(d) = get_mut(root, dst) {
                    d.add_unique_child(x.into_inner_t());
                }
                return Some(copy);
            }
            None
        }
        Op::Opt(p, n) => {
            if let Some(x) = get_mut(root, p) {
                x.set_child_optional(n);
            }
            None
        }
        Op::Remove(p, n) => get_mut(root, p).and_then(|x| x.remove_child(n)),
        Op::Merge(p, l) => {
            if let Some(x) = get_mut(root, p) {
                let attrs: Vec<Necessity<String>> = l.iter().map(|(m, a)| if *m { Necessity::Mandatory(a.clone()) } else { Necessity::Optional(a.clone()) }).collect();
                // merge_attr consumes the element
                let taken = std::mem::replace(x, Element::new(String::new(), vec![]));
                *x = taken.merge_attr(attrs);
            }
            None
        }
        Op::Multiple(p) => {
            if let Some(x) = get_mut(root, p) {
                x.set_multiple();
            }
            None
        }
        Op::Text(p, b) => {
            if let Some(x) = get_mut(root, p) {
                x.text = if *b { Some("t".to_string()) } else { None };
            }
            None
        }
        Op::Incr(p) => {
            if let Some(x) = get_mut(root, p) {
                x.increment();
            }
            None
        }
    }
}
fn coq_path(p: &[String], it: &mut Interner) -> String {
    format!("[{}]", p.iter().map(|x| it.get(x)).collect::<Vec<_>>().join("; "))
}
fn coq_op(o: &Op, it: &mut Interner) -> String {
    match o {
        Op::Add(p, n, a) => format!("OAdd {} {} {}", coq_path(p, it), it.get(n), coq_path(a, it)),
        Op::AddCopy(s, d) => format!("OAddCopy {} {}", coq_path(s, it), coq_path(d, it)),
        Op::Move(s, n, d) => format!("OMove {} {} {}", coq_path(s, it), it.get(n), coq_path(d, it)),
        Op::Opt(p, n) => format!("OOpt {} {}", coq_path(p, it), it.get(n)),
        Op::Remove(p, n) => format!("ORemove {} {}", coq_path(p, it), it.get(n)),
        Op::Merge(p, l) => format!("OMerge {} [{}]", coq_path(p, it), l.iter().map(|(m, a)| format!("({},{})", if *m { "Mand" } else { "Opt" }, it.get(a))).collect::<Vec<_>>().join("; ")),
        Op::Multiple(p) => format!("OMultiple {}", coq_path(p, it)),
        Op::Text(p, b) => format!("OText {} {}", coq_path(p, it), b),
        Op::Incr(p) => format!("OIncr {}", coq_path(p, it)),
    }
}
fn sv(v: &[&str]) -> Vec<String> {
    v.iter().map(|s| s.to_string()).collect()
}
fn small_alphabet() -> Vec<Op> {
    let r: Vec<String> = vec![];
    vec![
        Op::Add(r.clone(), "a".into(), sv(&["x"])),
        Op::Add(r.clone(), "b".into(), sv(&[])),
        Op::Opt(r.clone(), "a".into()),
        Op::Opt(r.clone(), "b".into()),
        Op::Remove(r.clone(), "a".into()),
        Op::Remove(r.clone(), "b".into()),
        Op::Merge(r.clone(), vec![(true, "x".into())]),
        Op::Merge(r.clone(), vec![(false, "x".into()), (true, "y".into())]),
        Op::Multiple(sv(&["a"])),
        Op::Text(sv(&["a"]), true),
        Op::AddCopy(sv(&["a"]), sv(&["b"])),
        Op::AddCopy(sv(&["b", "a"]), r.clone()),
        Op::Move(r.clone(), "a".into(), sv(&["b"])),
        Op::Move(sv(&["b"]), "a".into(), r.clone()),
        Op::Add(sv(&["a"]), "b".into(), sv(&["y"])),
        Op::Opt(sv(&["b"]), "a".into()),
        Op::Remove(sv(&["a"]), "b".into()),
        Op::Add(r.clone(), "c".into(), sv(&["x", "y", "x"])),
    ]
}
fn rand_path(rng: &mut Rng, names: &[String]) -> Vec<String> {
    let d = *rng.pick(&[0usize, 0, 0, 1, 1, 2]);
    (0..d).map(|_| rng.pick(names).clone()).collect()
}
fn rand_op(rng: &mut Rng, names: &[String], attrs: &[String]) -> Op {
    let p = rand_path(rng, names);
    let n = rng.pick(names).clone();
    match rng.below(14) {
        0 | 1 | 2 => {
            let mut a: Vec<String> = attrs.iter().filter(|_| rng.chance(1, 3)).cloned().collect();
            if rng.chance(1, 6) && !a.is_empty() {
                a.push(a[0].clone()); // a duplicate in the list given to Element::new
            }
            Op::Add(p, n, a)
        }
        3 => Op::AddCopy(rand_path(rng, names), p),
        4 | 5 => Op::Move(rand_path(rng, names), n, p),
        6 | 7 => Op::Opt(p, n),
        8 => Op::Remove(p, n),
        9 | 10 => {
            let k = rng.below(4);
            let l: Vec<(bool, String)> = (0..k).map(|_| (rng.chance(1, 2), rng.pick(attrs).clone())).collect(); // may repeat a name
            Op::Merge(p, l)
        }
        11 => Op::Multiple(p),
        12 => Op::Text(p, rng.chance(3, 4)),
        _ => Op::Incr(p),
    }
}

/// mixed histories: parse some documents, edit the tree by hand, extend with further documents
pub fn run_mixed(ctx: &mut Ctx, hist: &mut Hist) -> i64 {
    let mut rng = ctx.rng.fork();
    let mut fails: Vec<J> = vec![];
    let mut evaluations = 0i64;
        use crate::xml::{gen_doc, write_doc, GenCfg, Node, Style};
        let evals = vec![
            Eval { label: "mixed", func: "ev_mixed".into(), role: "corr" },
            Eval { label: "mixed_bytes", func: "ev_mixed_bytes".into(), role: "corr" },
            Eval { label: "mixed_admits", func: "or_mixed_admits".into(), role: "oracle" },
            Eval { label: "mixed_hyp", func: "mixed_hyp".into(), role: "hyp" },
        ];
        let imports = "From XSG.Model Require Import Strings Necessity Element Parser Dom Render Ops.\nFrom XSG.Corr Require Import Common Oracles CoreCorr OpsCorr.\nFrom Coq Require Import String Uint63.";
        let mut sh2 = Shards::new(&ctx.out, "mixed", imports, "mixedcase", evals, "show_mixed", 150);
        let n_mixed = if ctx.thorough { 12000 } else { 1200 };
        let cfg = RCfg::default();
        for i in 0..n_mixed {
            log::set_max_level(if i % 2 == 0 { log::LevelFilter::Trace } else { log::LevelFilter::Off });
            let names = ["r", "p", "x", "y", "z"];
            let attrs = ["k", "v"];
            let mut g = GenCfg::basic(&names, &attrs);
            g.max_depth = 3;
            g.max_kids = 4;
            g.max_nodes = rng.range(3, 12);
            g.p_misc = 30;
            let ser = |d: &Vec<Node>, rng: &mut Rng| -> Vec<u8> {
                let mut st = Style::new(rng.fork());
                write_doc(d, &mut st).into_bytes()
            };
            let init_docs: Vec<Vec<Node>> = (0..rng.range(1, 2)).map(|_| gen_doc(&mut rng, &g, "r")).collect();
            let more_docs: Vec<Vec<Node>> = (0..rng.range(1, 2)).map(|_| gen_doc(&mut rng, &g, "r")).collect();
            let init_bytes: Vec<Vec<u8>> = init_docs.iter().map(|d| ser(d, &mut rng)).collect();
            let more_bytes: Vec<Vec<u8>> = more_docs.iter().map(|d| ser(d, &mut rng)).collect();
            let onames = sv(&["p", "x", "y", "z", "w"]);
            let oattrs = sv(&["k", "v", "u"]);
            let ops: Vec<Op> = (0..rng.range(1, 5)).map(|_| rand_op(&mut rng, &onames, &oattrs)).collect();
            let mut tab = ErrTab::default();
            let init_evs: Vec<Vec<Ev>> = init_bytes.iter().map(|b| record(b, &cfg, &mut tab)).collect();
            let more_evs: Vec<Vec<Ev>> = more_bytes.iter().map(|b| record(b, &cfg, &mut tab)).collect();
            let res = catch_unwind(AssertUnwindSafe(|| {
                let mut cur: Option<E> = None;
                for b in &init_bytes {
                    cur = Some(parse_one(b, &cfg, cur.take())?);
                }
                let mut root = cur.unwrap();
                for o in &ops {
                    let _ = apply(&mut root, o);
                }
                // rendering in between must not matter
                let _ = root.to_serde_struct(&xml_schema_generator::Options::quick_xml_de());
                for b in &more_bytes {
                    root = parse_one(b, &cfg, Some(root))?;
                }
                Ok::<E, xml_schema_generator::ParserError>(root)
            }));
            let descr_ops = J::A(ops.iter().map(|o| json::s(format!("{:?}", o))).collect());
            let result = match res {
                Err(p) => ImplResult::Other(format!("panic: {}", panic_msg(&p))),
                Ok(Err(e)) => classify(e, &mut tab),
                Ok(Ok(e)) => match tree_of(&e) {
                    Ok(t) => ImplResult::Tree(t, e),
                    Err(m) => ImplResult::Other(format!("cannot read Debug output: {}", m)),
                },
            };
            if let ImplResult::Other(m) = &result {
                fails.push(json::obj(vec![("check", json::s("mixed-panic")), ("ops", descr_ops.clone()), ("what", json::s(m)), ("documents", J::A(init_bytes.iter().chain(more_bytes.iter()).map(|b| json::bytes(b)).collect()))]));
            }
            let it = &mut sh2.intern;
            let mut rend = vec![];
            if let ImplResult::Tree(_, e) = &result {
                let o = Opts::quick_xml().sorted(rng.chance(1, 2));
                let oc = o.coq(it);
                match render(e, &o) {
                    Ok(s) => rend.push(format!("({}, {}%uint63, {})", oc, hash63(&s), match crate::outp::parse_output(&s) {
                        Ok(ps) => format!("Some {}", crate::outp::coq_pstructs(&ps, it)),
                        Err(_) => "None".into(),
                    })),
                    Err(m) => fails.push(json::obj(vec![("check", json::s("render-panic")), ("ops", descr_ops.clone()), ("what", json::s(m))])),
                }
            }
            let term = format!(
                "Build_mixedcase [{}] {} [{}] [{}] {} [{}]",
                init_evs.iter().map(|e| coq_events(e, it)).collect::<Vec<_>>().join("; "),
                coq_list(&ops, |o| coq_op(o, it)),
                more_docs.iter().map(|d| coq_doc(d, it)).collect::<Vec<_>>().join("; "),
                more_evs.iter().map(|e| coq_events(e, it)).collect::<Vec<_>>().join("; "),
                coq_iresult(&result, it),
                rend.join("; ")
            );
            let d = json::obj(vec![
                ("kind", json::s("mixed")),
                ("parsed_first", J::A(init_bytes.iter().map(|b| json::bytes(b)).collect())),
                ("ops", descr_ops),
                ("documents", J::A(more_bytes.iter().map(|b| json::bytes(b)).collect())),
                ("impl", result.json()),
            ]);
            hist.add("mixed");
            sh2.push(term, d);
            evaluations += 1;
        }
        ctx.shards.extend(sh2.finish());
    ctx.impl_failures.extend(fails);
    evaluations
}

pub fn run(ctx: &mut Ctx) {
    let evals = vec![
        Eval { label: "states", func: "ev_ops_states".into(), role: "corr" },
        Eval { label: "bytes", func: "ev_ops_bytes".into(), role: "corr" },
        Eval { label: "unique", func: "or_ops_unique".into(), role: "oracle" },
        Eval { label: "steps", func: "or_ops_steps".into(), role: "oracle" },
        Eval { label: "reflects", func: "or_ops_reflects".into(), role: "oracle" },
        Eval { label: "wf", func: "or_ops_wf".into(), role: "oracle" },
        Eval { label: "hyp", func: "ops_hyp".into(), role: "hyp" },
    ];
    let imports = "From XSG.Model Require Import Strings Necessity Element Parser Render Ops.\nFrom XSG.Corr Require Import Common Oracles CoreCorr OpsCorr.\nFrom Coq Require Import String Uint63.";
    let mut sh = Shards::new(&ctx.out, "ops", imports, "opscase", evals, "show_ops", if ctx.thorough { 1500 } else { 500 });
    let mut hist = Hist::default();
    let mut samples: Vec<J> = vec![];
    let mut distinct = std::collections::HashSet::new();
    let mut evaluations = 0i64;
    let mut rng = ctx.rng.fork();
    let mut fails: Vec<J> = vec![];

    let mut seqs: Vec<(String, Vec<String>, Vec<Op>, &'static str)> = vec![];
    let alpha = small_alphabet();
    let l = if ctx.thorough { 4 } else { 3 };
    // all sequences of length l (their prefixes are observed step by step)
    let mut idx = vec![0usize; l];
    'outer: loop {
        seqs.push(("r".into(), sv(&["x"]), idx.iter().map(|i| alpha[*i].clone()).collect(), "exhaustive"));
        let mut k = l;
        loop {
            if k == 0 {
                break 'outer;
            }
            k -= 1;
            idx[k] += 1;
            if idx[k] < alpha.len() {
                break;
            }
            idx[k] = 0;
        }
    }
    // hand-written sequences for shapes random operations rarely assemble
    {
        let add = |p: &[&str], n: &str, a: &[&str]| Op::Add(sv(p), n.to_string(), sv(a));
        let fixed: Vec<(&str, Vec<Op>)> = vec![
            // a separator inside a name against the same string split over two levels
            ("r", vec![add(&[], "a.b", &["x"]), add(&["a.b"], "c", &["only_in_c"]), add(&[], "a", &[]), add(&["a"], "b.c", &["y"])]),
            ("r", vec![add(&[], "a", &[]), add(&["a"], "b.c", &["y"]), add(&[], "a.b", &["x"]), add(&["a.b"], "c", &["only_in_c"]), Op::Opt(sv(&[]), "a".into())]),
            ("a", vec![add(&[], "b", &[]), add(&["b"], "c.d", &["k"]), add(&[], "b.c", &[]), add(&["b.c"], "d", &["k2"]), Op::Text(sv(&["b.c", "d"]), true)]),
            // optional, then re-added from a clone and from a move (repair F3)
            ("r", vec![add(&[], "a", &["x"]), Op::Opt(sv(&[]), "a".into()), add(&[], "a", &["y"]), Op::AddCopy(sv(&["a"]), sv(&[])), Op::Move(sv(&[]), "a".into(), sv(&[]))]),
            // remove then add: positions collide
            ("r", vec![add(&[], "alpha", &[]), add(&[], "beta", &["b"]), Op::Remove(sv(&[]), "alpha".into()), add(&[], "gamma", &["g"]), add(&["beta"], "x", &[]), add(&["gamma"], "x", &[])]),
            // numbered names
            ("r", vec![add(&[], "option", &["k"]), add(&[], "option1", &["k"]), add(&[], "Option", &["k"]), add(&[], "vec", &["k"]), add(&[], "Vec1", &["k"])]),
        ];
        for (root, ops) in fixed {
            seqs.push((root.to_string(), sv(&["x", "y", "x"]), ops.clone(), "fixed"));
            // and every prefix-extension with one more operation from the small alphabet
            for extra in alpha.iter().take(8) {
                let mut o2 = ops.clone();
                o2.push(extra.clone());
                seqs.push((root.to_string(), sv(&["x"]), o2, "fixed"));
            }
        }
    }
    let pools = crate::docprops::name_pools();
    let n_rand = if ctx.thorough { 40000 } else { 2500 };
    for i in 0..n_rand {
        let (names, attrs): (Vec<String>, Vec<String>) = if i % 8 == 3 {
            // a separator inside a name against the same string split over two levels
            (sv(&["a.b", "a", "b.c", "c", "b"]), sv(&["x", "y"]))
        } else if i % 2 == 0 {
            (sv(&["a", "b", "c"]), sv(&["x", "y"]))
        } else if i % 4 == 1 {
            crate::docprops::rand_pool(&mut rng)
        } else {
            let (n, a) = &pools[rng.below(pools.len())];
            (sv(n), sv(a))
        };
        let maxlen = if rng.chance(1, 4) { 30 } else { 10 };
        let len = rng.range(1, maxlen);
        let ops: Vec<Op> = if i % 5 == 4 {
            // fill one parent with several distinct children, then prune and re-flag them: the
            // recorded positions end up beyond the length of the list, with gaps, out of list order
            let k = rng.range(3, 7);
            let kids: Vec<String> = (0..k).map(|j| if j < names.len() { names[j].clone() } else { format!("n{}", j) }).collect();
            let parent: Vec<String> = if rng.chance(1, 3) { vec![kids[0].clone()] } else { vec![] };
            let mut v: Vec<Op> = vec![];
            if !parent.is_empty() {
                v.push(Op::Add(vec![], kids[0].clone(), vec![]));
            }
            for c in &kids {
                v.push(Op::Add(parent.clone(), c.clone(), if rng.chance(1, 3) { vec![attrs[0].clone()] } else { vec![] }));
            }
            for _ in 0..rng.range(2, 8) {
                let c = rng.pick(&kids).clone();
                v.push(match rng.below(6) {
                    0 | 1 => Op::Opt(parent.clone(), c),
                    2 | 3 => Op::Remove(parent.clone(), c),
                    4 => Op::Add(parent.clone(), c, vec![]),
                    _ => {
                        let mut pc = parent.clone();
                        pc.push(c);
                        Op::Multiple(pc)
                    }
                });
            }
            v
        } else {
            (0..len).map(|_| rand_op(&mut rng, &names, &attrs)).collect()
        };
        let mut ra: Vec<String> = attrs.iter().filter(|_| rng.chance(1, 3)).cloned().collect();
        if rng.chance(1, 8) && !ra.is_empty() {
            ra.push(ra[0].clone());
        }
        seqs.push((names[0].clone(), ra, ops, "random"));
    }
    for (rname, rattrs, ops, kind) in seqs {
        log::set_max_level(if ops.len() % 2 == 0 { log::LevelFilter::Trace } else { log::LevelFilter::Off });
        let res = catch_unwind(AssertUnwindSafe(|| {
            let mut root: E = Element::new(rname.clone(), rattrs.clone());
            let mut states = vec![];
            let mut removed = vec![];
            for o in &ops {
                let r = apply(&mut root, o);
                removed.push(r.map(|n| (matches!(n, Necessity::Mandatory(_)), tree_of(n.inner_t()))));
                states.push(tree_of(&root));
            }
            (root, states, removed)
        }));
        let descr_ops = J::A(ops.iter().map(|o| json::s(format!("{:?}", o))).collect());
        let (root, states, removed) = match res {
            Ok(x) => x,
            Err(p) => {
                fails.push(json::obj(vec![("check", json::s("ops-panic")), ("root", json::s(&rname)), ("ops", descr_ops), ("what", json::s(panic_msg(&p)))]));
                continue;
            }
        };
        if states.iter().any(|s| s.is_err()) || removed.iter().any(|r| matches!(r, Some((_, Err(_))))) {
            fails.push(json::obj(vec![("check", json::s("debug-unreadable")), ("ops", descr_ops)]));
            continue;
        }
        let states: Vec<Tree> = states.into_iter().map(|s| s.unwrap()).collect();
        let optsv = vec![Opts::quick_xml().sorted(rng.chance(1, 2)), Opts::serde_xml_rs().sorted(rng.chance(1, 2))];
        let it = &mut sh.intern;
        let mut rend = vec![];
        let mut rend_json = vec![];
        for o in &optsv {
            let oc = o.coq(it);
            match render(&root, o) {
                Ok(s) => {
                    rend.push(format!("({}, {}%uint63, {})", oc, hash63(&s), match crate::outp::parse_output(&s) {
                        Ok(ps) => format!("Some {}", crate::outp::coq_pstructs(&ps, it)),
                        Err(_) => "None".into(),
                    }));
                    rend_json.push(json::obj(vec![("options", o.json()), ("output", json::s(&s))]));
                }
                Err(m) => {
                    fails.push(json::obj(vec![("check", json::s("render-panic")), ("ops", descr_ops.clone()), ("what", json::s(m))]));
                    rend.push(format!("({}, 0%uint63, None)", oc));
                }
            }
        }
        let t_root = it.get(&rname);
        let t_attrs = coq_path(&rattrs, it);
        let t_ops = coq_list(&ops, |o| coq_op(o, it));
        let t_states = coq_list(&states, |t| coq_tree(t, it));
        let t_removed = coq_list(&removed, |r| match r {
            Some((m, Ok(t))) => format!("Some ({}, {})", if *m { "Mand" } else { "Opt" }, coq_tree(t, it)),
            _ => "None".into(),
        });
        let term = format!("Build_opscase ({}, {}) {} {} {} [{}]", t_root, t_attrs, t_ops, t_states, t_removed, rend.join("; "));
        let d = json::obj(vec![
            ("kind", json::s(kind)),
            ("root", json::s(format!("Element::new({:?}, {:?})", rname, rattrs))),
            ("ops", descr_ops),
            ("final_state", states.last().map(tree_json).unwrap_or(J::Null)),
            ("renderings", J::A(rend_json)),
        ]);
        hist.add(kind);
        hist.add(&format!("len={}", ops.len().min(30) / 5 * 5));
        for o in &ops {
            hist.add(&format!("op:{}", format!("{:?}", o).split('(').next().unwrap()));
        }
        if samples.len() < 4 && ops.len() >= 4 && evaluations % 501 == 0 {
            samples.push(d.clone());
        }
        if ops.len() >= 2 {
            distinct.insert(format!("{:?}{:?}", rattrs, ops));
        }
        sh.push(term, d);
        evaluations += 1;
    }
    evaluations += run_mixed(ctx, &mut hist);
    if samples.is_empty() {
        samples.push(json::s("(see shards)"));
    }
    ctx.shards.extend(sh.finish());
    ctx.add_chars();
    ctx.impl_failures.extend(fails);
    ctx.meta.push(("evaluations", J::N(evaluations)));
    ctx.meta.push(("distinct_nontrivial", J::N(distinct.len() as i64)));
    ctx.meta.push(("rule", json::s(format!(
        "operation sequences on Element::new(r,[x]): all {}^{} sequences over a 18-operation alphabet (add / add a clone / move between parents / mark optional / remove / merge attribute list / set multiple / set text, at the root and at child paths of depth <= 2; state observed after every step, so all shorter sequences are covered), {} random sequences of length 1-30 over small, adversarial and random name pools (duplicate names in attribute lists included); non-trivial = at least 2 operations, distinct by sequence",
        alpha.len(), l, n_rand))));
    ctx.meta.push(("exhaustive_part", json::s(format!("all sequences of length {} over the 18-operation alphabet", l))));
    ctx.meta.push(("histogram", hist.json()));
    ctx.meta.push(("samples", J::A(samples)));
}
