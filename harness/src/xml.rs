//! DOM used by the generators, its serialisation (with all incidental detail chosen by
//! a `Style`), and document generators.
use crate::rng::Rng;

#[derive(Clone, Debug, PartialEq, Eq, Hash)]
pub enum Node {
    Elem { name: String, empty: bool, attrs: Vec<String>, kids: Vec<Node> },
    Text,
    CData,
    Misc,
}
pub fn elem(name: &str, attrs: &[&str], kids: Vec<Node>) -> Node {
    Node::Elem { name: name.to_string(), empty: false, attrs: attrs.iter().map(|s| s.to_string()).collect(), kids }
}
pub fn empty(name: &str, attrs: &[&str]) -> Node {
    Node::Elem { name: name.to_string(), empty: true, attrs: attrs.iter().map(|s| s.to_string()).collect(), kids: vec![] }
}

/// word-like string / byte-string literals of /repo/src/parser.rs (working tree, tests cut off)
pub fn source_words() -> &'static Vec<String> {
    static WORDS: std::sync::OnceLock<Vec<String>> = std::sync::OnceLock::new();
    WORDS.get_or_init(|| {
        let mut out: Vec<String> = vec![];
        if let Ok(text) = std::fs::read_to_string("/repo/src/parser.rs") {
            let text = match text.find("#[cfg(test)]") {
                Some(i) => text[..i].to_string(),
                None => text,
            };
            let b: Vec<char> = text.chars().collect();
            let mut i = 0;
            while i < b.len() {
                if b[i] == '"' {
                    let mut j = i + 1;
                    while j < b.len() && b[j] != '"' && b[j] != '\n' {
                        j += 1;
                    }
                    let lit: String = b[i + 1..j.min(b.len())].iter().collect();
                    for w in lit.split(|c: char| c == ' ' || c == ',' || c == '=' || c == '?') {
                        let ok = w.len() >= 2 && w.len() <= 40 && w.chars().all(|c| c.is_ascii_alphanumeric() || c == '_' || c == '-' || c == '.' || c == ':')
                            && w.chars().next().map_or(false, |c| c.is_ascii_alphabetic() || c == '_');
                        if ok && !out.contains(&w.to_string()) {
                            out.push(w.to_string());
                        }
                    }
                    i = j + 1;
                } else {
                    i += 1;
                }
            }
        }
        out
    })
}

/// incidental detail of a serialisation: everything the output must not depend on (C11)
#[derive(Clone)]
pub struct Style {
    pub rng: Rng,
    /// only whitespace text (data-oriented documents keep structure readable)
    pub ws_text_only: bool,
    /// text nodes are never blank and carry no surrounding white space (for trim_text readers);
    /// top-level white space between prolog, root and trailing comments is not written either
    pub no_blank_text: bool,
}
impl Style {
    pub fn new(rng: Rng) -> Style {
        Style { rng, ws_text_only: false, no_blank_text: false }
    }
    fn long_text(&mut self) -> String {
        // now and then far beyond any plausible fixed-size buffer (256, 1024, 4096 bytes)
        let n = match self.rng.below(8) {
            0 => self.rng.range(200, 600),
            1 => self.rng.range(900, 1400),
            2 => self.rng.range(4000, 4400),
            _ => self.rng.range(20, 150),
        };
        let alphabet = ['a', 'b', ' ', 'é', 'Ж', 'ß', 'x', '1', '\n', 'ü', '.', 'ö'];
        (0..n).map(|_| *self.rng.pick(&alphabet)).collect()
    }
    fn text(&mut self) -> String {
        if self.no_blank_text {
            // (blanks that are not XML white space are text: NBSP, NEL, IDEOGRAPHIC SPACE, EM SPACE -
            // seeded change C03-m15 drops them under a trimming reader)
            return self.rng.pick(&["t", "some text", "1 &lt; 2", "x&amp;y", "Ünï", "0", "&company;", "AT&T", "a\nb", "\u{a0}", "\u{3000}", "\u{85}", "\u{2003}\u{a0}"]).to_string();
        }
        if !self.ws_text_only && self.rng.chance(1, 10) {
            return self.long_text();
        }
        let opts: &[&str] = if self.ws_text_only { &[" ", "\n", "\n  ", "\t"] } else { &["t", "some text", " ", "\n  ", "1 &lt; 2", "x&amp;y", "Ünï", "0", "&company;", "AT&T", "&nbsp;", "&#xZZ; &", "]]>", "&#169;", "\u{a0}", "\u{3000}", "\u{85}"] };
        self.rng.pick(opts).to_string()
    }
    fn cdata(&mut self) -> String {
        if self.rng.chance(1, 10) {
            return format!("<![CDATA[{}]]>", self.long_text());
        }
        let opts = ["<![CDATA[c]]>", "<![CDATA[]]>", "<![CDATA[ <b>not a tag</b> ]]>", "<![CDATA[&amp;]]>", "<![CDATA[ \n ]]>", "<![CDATA[ ]]>"];
        self.rng.pick(&opts).to_string()
    }
    fn misc(&mut self) -> String {
        // words the parser's own source spells out (string and byte-string literals of
        // src/parser.rs outside its tests): a comment or processing instruction made of them is
        // still a comment or processing instruction (seeded change C06-m15: a "skip hint" PI)
        let words = source_words();
        if !words.is_empty() && self.rng.chance(1, 5) {
            let a = self.rng.pick(words).clone();
            let b = self.rng.pick(words).clone();
            return match self.rng.below(5) {
                0 => format!("<?{} {}?>", a, b),
                1 => format!("<?{}?>", a),
                2 => format!("<!--{}-->", a),
                3 => format!("<!-- {} {} -->", a, b),
                _ => format!("<?{} {}=\"{}\"?>", a, b, a),
            };
        }
        let opts = ["<!--c-->", "<!-- a <b> comment -->", "<?pi?>", "<?target data?>", "<!---->", "<!-- a -- b -->", "<!--- banner --->", "<?xml-stylesheet href=\"a.xsl\"?>", "<!-- <![CDATA[ x ]]> -->"];
        self.rng.pick(&opts).to_string()
    }
    fn value(&mut self) -> String {
        // the values must never matter: booleans, nil markers, broken entity references, long ones
        let opts = ["", "v", "1", "a b", "&amp;", "x=y", "<", "Ж", "&ent;", "a&b", ">", "/", "true", "false", "0", "TRUE", "&nbsp;", "&", "&#xZZ;", "nil", "null", "\t", "http://www.w3.org/2001/XMLSchema-instance", "{}", "%s"];
        let v = self.rng.pick(&opts).to_string();
        // '<' is accepted by quick-xml inside a quoted value
        if self.rng.chance(1, 2) {
            format!("\"{}\"", v)
        } else {
            format!("'{}'", v)
        }
    }
    fn sp(&mut self) -> &'static str {
        // attributes may be separated by any white space, not only blanks
        *self.rng.pick(&[" ", " ", " ", "  ", "\n", "\t ", "\t", "\n\t\t", "\r\n", "\r"])
    }
}

pub fn write_node(n: &Node, st: &mut Style, out: &mut String) {
    match n {
        Node::Text => out.push_str(&st.text()),
        Node::CData => out.push_str(&st.cdata()),
        Node::Misc => out.push_str(&st.misc()),
        Node::Elem { name, empty, attrs, kids } => {
            out.push('<');
            out.push_str(name);
            for a in attrs {
                out.push_str(st.sp());
                out.push_str(a);
                if st.rng.chance(1, 8) {
                    out.push(' ');
                }
                out.push('=');
                if st.rng.chance(1, 8) {
                    out.push(' ');
                }
                out.push_str(&st.value());
            }
            if st.rng.chance(1, 6) {
                out.push(' ');
            }
            if *empty {
                out.push_str("/>");
            } else {
                out.push('>');
                for k in kids {
                    write_node(k, st, out);
                }
                out.push_str("</");
                out.push_str(name);
                if st.rng.chance(1, 10) {
                    out.push(' ');
                }
                out.push('>');
            }
        }
    }
}
/// a document = top-level nodes; Misc at top level may also be a declaration / DOCTYPE
pub fn write_doc(top: &[Node], st: &mut Style) -> String {
    let mut out = String::new();
    let mut seen_root = false;
    for (i, n) in top.iter().enumerate() {
        match n {
            Node::Misc if i == 0 && st.rng.chance(1, 2) => out.push_str(*st.rng.pick(&[
                "<?xml version=\"1.0\" encoding=\"UTF-8\"?>",
                "<?xml version=\"1.0\" encoding=\"UTF-8\"?>",
                "<?xml version=\"1.0\"?>",
                "<?xml version='1.0' encoding='utf-8' standalone='yes'?>",
                "<?xml version=\"1.0\" encoding=\"ISO-8859-1\"?>",
                "<?xml version=\"1.1\" encoding=\"US-ASCII\"?>",
                "<?xml version=\"1.0\" encoding=\"windows-1252\" standalone=\"no\"?>",
                "<?xml encoding=\"latin1\"?>",
            ])),
            Node::Misc if !seen_root && st.rng.chance(1, 3) => {
                // a document type declaration; half of them with an internal subset that talks about
                // the document's own elements and attributes (defaults, #IMPLIED, #REQUIRED, #FIXED,
                // entities used in the texts): none of it may influence the inferred structure
                if st.rng.chance(1, 2) {
                    out.push_str("<!DOCTYPE r [ <!ELEMENT r ANY> ]>");
                } else {
                    fn pairs(n: &Node, acc: &mut Vec<(String, Vec<String>)>) {
                        if let Node::Elem { name, attrs, kids, .. } = n {
                            acc.push((name.clone(), attrs.clone()));
                            for k in kids {
                                pairs(k, acc);
                            }
                        }
                    }
                    let mut acc = vec![];
                    for t in top {
                        pairs(t, &mut acc);
                    }
                    let root = acc.first().map(|x| x.0.clone()).unwrap_or("r".into());
                    let mut d = format!("<!DOCTYPE {} [\n<!ENTITY company \"ACME\">\n<!ENTITY nbsp \"&#160;\">\n", root);
                    if st.rng.chance(1, 2) {
                        // external and parameter entities, notations: declared, never used
                        d.push_str("<!ENTITY chapter SYSTEM \"chapter1.xml\">\n<!ENTITY logo PUBLIC \"-//X//LOGO//EN\" \"logo.gif\" NDATA gif>\n<!NOTATION gif SYSTEM \"image/gif\">\n<!ENTITY % common SYSTEM \"common.ent\">\n");
                    }
                    for (e, attrs) in acc.iter().take(6) {
                        d.push_str(&format!("<!ELEMENT {} ANY>\n", e));
                        for a in attrs.iter().take(3) {
                            let kind = *st.rng.pick(&["#IMPLIED", "#REQUIRED", "\"dflt\"", "#FIXED \"v\""]);
                            d.push_str(&format!("<!ATTLIST {} {} CDATA {}>\n", e, a, kind));
                        }
                        if st.rng.chance(1, 3) {
                            // an attribute the document never uses, with a default
                            d.push_str(&format!("<!ATTLIST {} undeclared CDATA \"x\">\n", e));
                        }
                    }
                    d.push_str("]>");
                    out.push_str(&d);
                }
            }
            Node::Text if st.no_blank_text => {}
            Node::Text => out.push_str(*st.rng.pick(&["\n", " ", "\n\n  "])),
            Node::Elem { .. } => {
                seen_root = true;
                write_node(n, st, &mut out)
            }
            _ => write_node(n, st, &mut out),
        }
    }
    out
}

/// no two adjacent Text nodes (the tokenizer would merge them into one event)
pub fn normalize(kids: &mut Vec<Node>) {
    let mut i = 1;
    while i < kids.len() {
        if kids[i] == Node::Text && kids[i - 1] == Node::Text {
            kids.remove(i);
        } else {
            i += 1;
        }
    }
    for k in kids.iter_mut() {
        if let Node::Elem { kids, .. } = k {
            normalize(kids);
        }
    }
}
pub fn count_nodes(n: &Node) -> usize {
    match n {
        Node::Elem { kids, .. } => 1 + kids.iter().map(count_nodes).sum::<usize>(),
        _ => 1,
    }
}
pub fn depth(n: &Node) -> usize {
    match n {
        Node::Elem { kids, .. } => 1 + kids.iter().map(depth).max().unwrap_or(0),
        _ => 0,
    }
}

/// parameters of the random document generator
#[derive(Clone)]
pub struct GenCfg {
    pub names: Vec<String>,
    pub attrs: Vec<String>,
    pub max_depth: usize,
    pub max_kids: usize,
    /// per-mille probabilities
    pub p_text: usize,
    pub p_cdata: usize,
    pub p_misc: usize,
    pub p_empty: usize,
    /// data-oriented: an element has either element children or text, never both
    pub data_oriented: bool,
    /// repeated children adjacent (serde-xml-rs)
    pub adjacent: bool,
    pub max_nodes: usize,
}
impl GenCfg {
    pub fn basic(names: &[&str], attrs: &[&str]) -> GenCfg {
        GenCfg {
            names: names.iter().map(|s| s.to_string()).collect(),
            attrs: attrs.iter().map(|s| s.to_string()).collect(),
            max_depth: 4,
            max_kids: 5,
            p_text: 150,
            p_cdata: 60,
            p_misc: 80,
            p_empty: 250,
            data_oriented: false,
            adjacent: false,
            max_nodes: 40,
        }
    }
}

fn gen_attrs(rng: &mut Rng, cfg: &GenCfg) -> Vec<String> {
    let mut a: Vec<String> = cfg.attrs.iter().filter(|_| rng.chance(1, 3)).cloned().collect();
    rng.shuffle(&mut a);
    a
}

pub fn gen_elem(rng: &mut Rng, cfg: &GenCfg, name: &str, depth: usize, budget: &mut usize) -> Node {
    let attrs = gen_attrs(rng, cfg);
    if *budget > 0 {
        *budget -= 1;
    }
    if depth >= cfg.max_depth || *budget == 0 || rng.chance(cfg.p_empty, 1000) {
        if rng.chance(1, 2) {
            return Node::Elem { name: name.to_string(), empty: true, attrs, kids: vec![] };
        }
        let mut kids = vec![];
        if rng.chance(1, 3) {
            kids.push(if rng.chance(1, 4) { Node::CData } else { Node::Text });
        }
        return Node::Elem { name: name.to_string(), empty: false, attrs, kids };
    }
    let mut kids = vec![];
    let n = rng.below(cfg.max_kids + 1);
    let text_leaf = cfg.data_oriented && rng.chance(1, 4);
    if text_leaf {
        kids.push(if rng.chance(1, 5) { Node::CData } else { Node::Text });
    } else {
        let mut names: Vec<String> = vec![];
        for _ in 0..n {
            // bias: repeat a name already used in this occurrence (multiplicity)
            let nm = if !names.is_empty() && rng.chance(1, 3) { rng.pick(&names).clone() } else { rng.pick(&cfg.names).clone() };
            names.push(nm);
        }
        if cfg.adjacent {
            let mut order: Vec<String> = vec![];
            for x in &names {
                if !order.contains(x) {
                    order.push(x.clone());
                }
            }
            let mut sorted = vec![];
            for o in order {
                for x in &names {
                    if *x == o {
                        sorted.push(x.clone());
                    }
                }
            }
            names = sorted;
        }
        for nm in names {
            if !cfg.data_oriented {
                if rng.chance(cfg.p_text, 1000) {
                    kids.push(Node::Text);
                }
                if rng.chance(cfg.p_cdata, 1000) {
                    kids.push(Node::CData);
                }
            }
            if rng.chance(cfg.p_misc, 1000) {
                kids.push(Node::Misc);
            }
            kids.push(gen_elem(rng, cfg, &nm, depth + 1, budget));
        }
        if !cfg.data_oriented && rng.chance(cfg.p_text, 1000) {
            kids.push(Node::Text);
        }
    }
    normalize(&mut kids);
    Node::Elem { name: name.to_string(), empty: false, attrs, kids }
}

/// a document: optional prolog noise, one root element, optional trailing noise
pub fn gen_doc(rng: &mut Rng, cfg: &GenCfg, root: &str) -> Vec<Node> {
    let mut top = vec![];
    if rng.chance(1, 4) {
        top.push(Node::Misc);
    }
    if rng.chance(1, 6) {
        top.push(Node::Text);
    }
    if rng.chance(1, 6) {
        top.push(Node::Misc);
    }
    let mut budget = cfg.max_nodes;
    let mut r = gen_elem(rng, cfg, root, 1, &mut budget);
    // the root of a generated document is never written `<r/>` with p>1/8 (keeps documents interesting)
    if let Node::Elem { empty, kids, .. } = &mut r {
        if *empty && rng.chance(7, 8) {
            *empty = false;
            kids.clear();
        }
    }
    top.push(r);
    if rng.chance(1, 6) {
        top.push(Node::Text);
    }
    if rng.chance(1, 8) {
        top.push(Node::Misc);
    }
    top
}

/// all small element trees: 2 names, 1 attribute, depth <= d, <= 2 children at the
/// second level (port of notes/Sketch.v `trees`)
pub fn small_trees(d: usize, names: &[&str], attr: &str) -> Vec<Node> {
    if d == 0 {
        return vec![];
    }
    let sub = small_trees(d - 1, names, attr);
    let mut leafs = vec![Node::Text, Node::Misc];
    leafs.extend(sub.iter().cloned());
    let mut kidlists: Vec<Vec<Node>> = vec![vec![]];
    for k in &leafs {
        kidlists.push(vec![k.clone()]);
    }
    if d - 1 <= 1 {
        for k1 in &leafs {
            for k2 in &leafs {
                if *k1 == Node::Text && *k2 == Node::Text {
                    continue;
                }
                kidlists.push(vec![k1.clone(), k2.clone()]);
            }
        }
    }
    let mut out = vec![];
    for n in names {
        for at in [vec![], vec![attr.to_string()]] {
            for ks in &kidlists {
                if ks.is_empty() {
                    out.push(Node::Elem { name: n.to_string(), empty: true, attrs: at.clone(), kids: vec![] });
                }
                out.push(Node::Elem { name: n.to_string(), empty: false, attrs: at.clone(), kids: ks.clone() });
            }
        }
    }
    out
}
