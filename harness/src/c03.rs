//! C03: inference exactness. Exhaustive small documents (singletons, strided pairs),
//! random sequences of 1-4 documents with a common root.
use crate::core::*;
use crate::docs::*;
use crate::emit::{Eval, Hist, Shards};
use crate::json::{self, J};
use crate::xml::*;
use crate::Ctx;

pub fn name_pools() -> Vec<(Vec<&'static str>, Vec<&'static str>)> {
    vec![
        (vec!["a", "b", "c"], vec!["x", "y", "z"]),
        (vec!["a", "b"], vec!["x"]),
        (vec!["item", "name", "id", "list"], vec!["id", "lang"]),
        (vec!["a-b", "a_b", "A.B", "ab"], vec!["a-b", "a_b"]),
        (vec!["type", "Type", "self", "loop"], vec!["type", "ref", "as"]),
        (vec!["Foo", "foo", "FOO", "fOO"], vec!["Foo", "foo"]),
        (vec!["text", "text_content", "x_attr", "x"], vec!["x", "text", "x_attr"]),
        (vec!["p:a", "q:b", "c"], vec!["xmlns:p", "p:id", "id2"]),
        (vec!["Классификатор", "Ид", "Straße"], vec!["Ид", "ß"]),
        (vec!["Total", "Price", "TotalPrice", "Other"], vec!["a"]),
        (vec!["string", "String", "option", "vec", "Vec"], vec!["a", "b"]),
    ]
}

pub fn run(ctx: &mut Ctx) {
    let evals = vec![
        Eval { label: "events", func: "ev_events".into(), role: "corr" },
        Eval { label: "tree", func: "ev_tree".into(), role: "corr" },
        Eval { label: "dom", func: "ev_dom".into(), role: "corr" },
        Eval { label: "bytes", func: "ev_bytes".into(), role: "corr" },
        Eval { label: "exact", func: "or_exact".into(), role: "oracle" },
        Eval { label: "reflects", func: "or_reflects".into(), role: "oracle" },
        Eval { label: "hyp", func: "in_hyp_docs".into(), role: "hyp" },
    ];
    let mut sh = Shards::new(&ctx.out, "docs", DOC_IMPORTS, "doccase", evals, "show_case", if ctx.thorough { 1500 } else { 400 });
    let mut hist = Hist::default();
    let mut samples: Vec<J> = vec![];
    let mut distinct = std::collections::HashSet::new();
    let mut evaluations = 0i64;
    let cfg = RCfg::default();
    let mut rng = ctx.rng.fork();

    let mut add = |sh: &mut Shards, docs: &[Vec<Node>], kind: &str, hist: &mut Hist, samples: &mut Vec<J>, rng: &mut crate::rng::Rng| {
        let bytes = serialise(docs, rng);
        let opts = [Opts::quick_xml().sorted(rng.chance(1, 2))];
        let b = build_case(Some(docs), &bytes, &cfg, &opts, &mut sh.intern, vec![("kind", json::s(kind))]);
        hist.add(kind);
        hist.add(&format!("docs={}", docs.len()));
        hist.add(&format!("result={}", b.result.class()));
        let nodes: usize = docs.iter().flat_map(|d| d.iter()).map(count_nodes).sum();
        hist.add(&format!("nodes~{}", (nodes / 5) * 5));
        if samples.len() < 5 && nodes >= 6 && docs.len() >= 2 {
            samples.push(b.descr.clone());
        }
        if nodes >= 3 {
            distinct.insert(format!("{:?}", docs));
        }
        sh.push(b.term, b.descr);
        evaluations += 1;
    };

    // exhaustive small roots named "a" over {a,b} x {x}
    let roots: Vec<Node> = small_trees(3, &["a", "b"], "x").into_iter().filter(|n| matches!(n, Node::Elem { name, .. } if name == "a")).collect();
    let single_stride = if ctx.thorough { 1 } else { 3 };
    for (i, r) in roots.iter().enumerate() {
        if i % single_stride == 0 {
            add(&mut sh, &[vec![r.clone()]], "exhaustive-single", &mut hist, &mut samples, &mut rng);
        }
    }
    let stride = if ctx.thorough { 13 } else { 61 };
    let off = (ctx.seed as usize) % stride;
    let sub: Vec<&Node> = roots.iter().enumerate().filter(|(i, _)| i % stride == off).map(|(_, r)| r).collect();
    for a in &sub {
        for b in &sub {
            add(&mut sh, &[vec![(*a).clone()], vec![(*b).clone()]], "strided-pairs", &mut hist, &mut samples, &mut rng);
        }
    }
    // random sequences
    let pools = name_pools();
    let n_rand = if ctx.thorough { 60000 } else { 2500 };
    for i in 0..n_rand {
        let (names, attrs) = &pools[if i % 3 == 0 { 0 } else { rng.below(pools.len()) }];
        let mut g = GenCfg::basic(names, attrs);
        g.max_depth = rng.range(2, 5);
        g.max_kids = rng.range(1, 6);
        g.max_nodes = rng.range(4, 40);
        let k = rng.range(1, 4);
        let root = names[0];
        let docs: Vec<Vec<Node>> = (0..k).map(|_| gen_doc(&mut rng, &g, root)).collect();
        add(&mut sh, &docs, "random-seq", &mut hist, &mut samples, &mut rng);
    }
    let files = sh.finish();
    ctx.add_chars();
    ctx.meta.push(("evaluations", J::N(evaluations)));
    ctx.meta.push(("distinct_nontrivial", J::N(distinct.len() as i64)));
    ctx.meta.push(("rule", json::s(format!(
        "documents as DOM trees serialised with random incidental detail: all {} small roots (2 names, 1 attribute, depth<=3) as single documents (stride {}), a strided {}x{} of their pairs (offset by seed), {} random sequences of 1-4 documents (11 name pools incl. keywords/case variants/prefixed/non-ASCII, depth<=5, fan-out<=6); non-trivial = at least 3 nodes, distinct by DOM sequence",
        roots.len(), single_stride, sub.len(), sub.len(), n_rand))));
    ctx.meta.push(("histogram", hist.json()));
    ctx.meta.push(("samples", J::A(samples)));
    ctx.shards.extend(files);
}
