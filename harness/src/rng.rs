//! xorshift64* — every random choice of a run derives from one state seeded by VERIF_SEED
#[derive(Clone)]
pub struct Rng(pub u64);
impl Rng {
    pub fn new(seed: u64) -> Rng {
        let mut s = seed.wrapping_mul(0x9E3779B97F4A7C15) ^ 0xD1B54A32D192ED03;
        if s == 0 {
            s = 0x2545F4914F6CDD1D;
        }
        let mut r = Rng(s);
        for _ in 0..8 {
            r.next();
        }
        r
    }
    pub fn next(&mut self) -> u64 {
        let mut x = self.0;
        x ^= x >> 12;
        x ^= x << 25;
        x ^= x >> 27;
        self.0 = x;
        x.wrapping_mul(0x2545F4914F6CDD1D)
    }
    pub fn below(&mut self, n: usize) -> usize {
        if n == 0 {
            0
        } else {
            (self.next() >> 11) as usize % n
        }
    }
    pub fn range(&mut self, lo: usize, hi: usize) -> usize {
        lo + self.below(hi - lo + 1)
    }
    pub fn chance(&mut self, num: usize, den: usize) -> bool {
        self.below(den) < num
    }
    pub fn pick<'a, T>(&mut self, v: &'a [T]) -> &'a T {
        &v[self.below(v.len())]
    }
    pub fn shuffle<T>(&mut self, v: &mut [T]) {
        for i in (1..v.len()).rev() {
            let j = self.below(i + 1);
            v.swap(i, j);
        }
    }
    pub fn fork(&mut self) -> Rng {
        Rng::new(self.next())
    }
}
